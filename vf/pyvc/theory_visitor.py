"""Theory plug-in for yp_prolog_visitor.YPPrologVisitor (string functions: unquoteString, visitVARIABLE, ...)."""
import ast
import re

from .core import SV, NONE, OutOfSubset, AND, OR, NOT, EQ, ITE, smt_str
from .exec import Exc
from .theory import Theory
from . import core


def anon_name_expr(modname, n, node):
    """SMT term for the name AnonymousVariableTerm(n) gives its variable: the f-string assigned to self.varname in its
    __init__ (constant text and {self.num}, {self.num + k} parts), read from the real class on every run"""
    cls = core.module(modname).classes.get('AnonymousVariableTerm')
    init = [f for f in (cls.body if cls else []) if isinstance(f, ast.FunctionDef) and f.name == '__init__']
    if not init or len(init[0].args.args) != 2:
        raise OutOfSubset('AnonymousVariableTerm.__init__ shape', node)
    numparam = init[0].args.args[1].arg
    tracked = {numparam}
    val = None
    for s_ in init[0].body:
        if isinstance(s_, ast.Assign) and len(s_.targets) == 1 and ast.unparse(s_.targets[0]) == 'self.num' and ast.unparse(s_.value) == numparam:
            tracked.add('self.num')
        elif isinstance(s_, ast.Assign) and len(s_.targets) == 1 and ast.unparse(s_.targets[0]) == 'self.varname':
            val = s_.value
        elif isinstance(s_, ast.Expr) and isinstance(s_.value, ast.Constant):
            continue
        else:
            raise OutOfSubset('statement in AnonymousVariableTerm.__init__: %s' % ast.unparse(s_)[:40], node)

    def intexpr(x):
        if ast.unparse(x) in tracked:
            return n
        if isinstance(x, ast.Constant) and type(x.value) is int:
            return str(x.value) if x.value >= 0 else '(- %d)' % -x.value
        if isinstance(x, ast.BinOp) and isinstance(x.op, (ast.Add, ast.Sub, ast.Mult)):
            return '(%s %s %s)' % ({ast.Add: '+', ast.Sub: '-', ast.Mult: '*'}[type(x.op)], intexpr(x.left), intexpr(x.right))
        raise OutOfSubset('AnonymousVariableTerm name expression', node)

    def strexpr(x):
        if isinstance(x, ast.Constant) and isinstance(x.value, str):
            return smt_str(x.value)
        if isinstance(x, ast.JoinedStr):
            parts = []
            for v in x.values:
                if isinstance(v, ast.Constant):
                    parts.append(smt_str(v.value))
                elif isinstance(v, ast.FormattedValue) and v.conversion == -1 and v.format_spec is None:
                    parts.append('(str.from_int %s)' % intexpr(v.value))     # str(int), A-PY-STR (non-negative here)
                else:
                    raise OutOfSubset('AnonymousVariableTerm name format', node)
            return parts[0] if len(parts) == 1 else '(str.++ %s)' % ' '.join(parts)
        if isinstance(x, ast.BinOp) and isinstance(x.op, ast.Add):
            return '(str.++ %s %s)' % (strexpr(x.left), strexpr(x.right))
        if isinstance(x, ast.Call) and ast.unparse(x.func) == 'str' and len(x.args) == 1:
            return '(str.from_int %s)' % intexpr(x.args[0])
        raise OutOfSubset('AnonymousVariableTerm name expression', node)
    if val is None:
        raise OutOfSubset('AnonymousVariableTerm.__init__ does not set self.varname', node)
    return strexpr(val)


class VisitorTheory(Theory):
    COMPS = [('avc', 'Int')]
    NO_TERM_COMPS = True

    def mk_param(self, ex, st, n, sort, sub):
        if sort == 'VSelf':
            return SV('VSelf', None)
        if sort == 'Token':
            return SV('Token', ex.fresh('String', n + '_text'))
        return None

    def attr_read(self, ex, base, attr, st, node):
        if base.sort == 'VSelf' and attr == 'anonymousVariableCounter':
            return [(st, SV('Int', st.comp['avc']))]
        if base.sort == 'VarAst' and attr == 'varname':
            return [(st, SV('Str', base.e))]
        return None

    def attr_write(self, ex, base, attr, v, st, node):
        if base.sort == 'VSelf' and attr == 'anonymousVariableCounter' and v.sort == 'Int':
            st.comp['avc'] = v.e
            return [(st, None)]
        return None

    def global_name(self, ex, name, st):
        # module-level constant tuples of strings
        mod = core.module(ex.modname)
        for s in mod.tree.body:
            if isinstance(s, ast.Assign) and len(s.targets) == 1 and isinstance(s.targets[0], ast.Name) and s.targets[0].id == name \
                    and isinstance(s.value, ast.Tuple) and all(isinstance(e, ast.Constant) and isinstance(e.value, str) for e in s.value.elts):
                return SV('PyList', None, {'items': [SV('Str', smt_str(e.value), {'lit': e.value}) for e in s.value.elts]})
        return None

    def subscript(self, ex, e, base, idx, st):
        if base.sort == 'Str' and idx.sort == 'Int':
            ex.oblige(st, 'safety.index', AND('(<= 0 %s)' % idx.e, '(< %s (str.len %s))' % (idx.e, base.e)), 'safety')
            return [(st, SV('Str', '(str.at %s %s)' % (base.e, idx.e)))]
        return None

    def slice(self, ex, e, base, st):
        sl = e.slice
        if base.sort == 'Str' and sl.upper is None and sl.step is None and sl.lower is not None:
            outs = []
            for st2, lo in ex.eval(sl.lower, st):
                if isinstance(lo, Exc) or lo.sort != 'Int':
                    raise OutOfSubset('slice bound', e)
                # s[lo:] for 0 <= lo (Python clamps lo > len to the empty string, as str.substr does)
                ex.oblige(st2, 'safety.slice_lower_nonneg', '(>= %s 0)' % lo.e, 'safety')
                outs.append((st2, SV('Str', '(str.substr %s %s (- (str.len %s) %s))' % (base.e, lo.e, base.e, lo.e))))
            return outs
        return None

    def apply_method(self, ex, e, base, meth, args, st):
        if base.sort == 'Token' and meth == 'getText' and not args:
            return [(st, SV('Str', base.e))]
        if base.sort == 'Str' and meth == 'startswith' and len(args) == 1 and args[0].sort == 'Str':
            return [(st, SV('Bool', '(str.prefixof %s %s)' % (args[0].e, base.e)))]
        if base.sort == 'Str' and meth == 'strip' and len(args) == 1 and args[0].sort == 'Str' and args[0].e == smt_str('_'):
            # only the emptiness of the stripped string is ever used: keep the operand, mark it
            return [(st, SV('Stripped_', base.e))]
        return None

    def equal(self, ex, e, op, a, b, st):
        if a.sort == 'Stripped_' and b.sort == 'Str' and b.e == '""':
            return '(str.in_re %s (re.* (str.to_re "_")))' % a.e
        return None

    def apply_name(self, ex, e, name, args, st):
        if name == 'VariableTerm' and len(args) == 1 and args[0].sort == 'Str':
            return [(st, SV('VarAst', args[0].e, {'anon': 'false'}))]
        if name == 'AnonymousVariableTerm' and len(args) == 1 and args[0].sort == 'Int':
            # class AnonymousVariableTerm: __init__ sets self.varname to an f-string over self.num: read it from the class
            return [(st, SV('VarAst', anon_name_expr(ex.modname, args[0].e, e), {'anon': 'true'}))]
        if name == 'len' and len(args) == 1 and args[0].sort == 'Str':
            return [(st, SV('Int', '(str.len %s)' % args[0].e))]
        return None

    def call_name_ast(self, ex, e, st):
        # any(<cond> for r in <constant tuple>): unrolled disjunction
        if isinstance(e.func, ast.Name) and e.func.id == 'any' and len(e.args) == 1 and isinstance(e.args[0], ast.GeneratorExp):
            g = e.args[0]
            if len(g.generators) == 1 and not g.generators[0].ifs and isinstance(g.generators[0].target, ast.Name):
                gen = g.generators[0]
                outs = []
                for st2, seq in ex.eval(gen.iter, st):
                    if isinstance(seq, Exc) or seq.sort != 'PyList':
                        raise OutOfSubset('any() over a non-constant sequence', e)
                    conds = []
                    cur = st2
                    for item in seq.meta['items']:
                        cur.env[gen.target.id] = item
                        res = ex.eval_cond(g.elt, cur)
                        if len(res) != 1 or isinstance(res[0][1], Exc):
                            raise OutOfSubset('any() element with control flow', e)
                        cur, c = res[0]
                        conds.append(c)
                    cur.env.pop(gen.target.id, None)
                    outs.append((cur, SV('Bool', OR(*conds))))
                return outs
        return None

    def mk_ret(self, ex, sort, e, st):
        if sort == 'VarAst':
            return SV('VarAst', e)
        return None

    def smt_sort(self, sort):
        return {'VarAst': 'String'}.get(sort)


from .theory_compiler import CompilerTheory  # noqa: E402
from .exec import Exc  # noqa: E402


class ParseTheory(CompilerTheory):
    """ANTLR parse-tree contexts as the datatypes TT/TTL/SP/PE of spec/parse.smt2; the accessor methods of the generated
    context classes (atom(), functor(), UNOP(), term(i), termlist(), VARIABLE(), LBRACK(), simplepredicate(), op,
    predicateexpression(i), TRUE(), ...) as recognisers/selectors with presence conditions (an absent child is None);
    AST classes of the visitor as constructors of TA/Body; the anonymous-variable counter as state component avc."""
    COMPS = [('avc', 'Int')]
    NO_TERM_COMPS = True
    FUNCTIONAL_POST = True

    def _sup(self, name, *a):
        f = getattr(CompilerTheory, name, None)
        return f(self, *a) if f else None

    def loop_modified_comps(self, ex, body):
        return {'avc'}

    def mk_param(self, ex, st, n, sort, sub):
        if sort == 'PG':
            return SV('PG', ex.fresh('(Seq CD)', n))
        if sort in ('PE', 'SP', 'TT', 'TTL', 'CL', 'CD'):
            e = ex.fresh(sort, n)
            if sub:
                st.assume('((_ is %s) %s)' % (sub, e))
            return SV(sort, e)
        if sort == 'Token':
            return SV('Token', ex.fresh('String', n))
        return self._sup('mk_param', ex, st, n, sort, sub)

    def mk_ret(self, ex, sort, e, st):
        if sort == 'CA':
            return SV('CA', e)
        if sort == 'CAOpt':
            return SV('CAOpt', e, {'isclause': ex.fresh('Bool', 'isclause')})
        if sort == 'NonClause':
            return SV('NonClause', None)
        if sort in ('TA', 'TAL'):
            return SV(sort, e)
        if sort == 'Str':
            return SV('Str', e)
        return self._sup('mk_ret', ex, sort, e, st)

    # ---- attributes
    def attr_read(self, ex, base, attr, st, node):
        if base.sort == 'CSelf' and attr == 'anonymousVariableCounter':
            return [(st, SV('Int', st.comp['avc']))]
        if base.sort == 'PE' and attr == 'op':
            b = base.e
            return [(st, SV('OptTok', ITE('((_ is PENeg) %s)' % b, smt_str('\\+'), '(peop %s)' % b),
                        {'none': NOT(OR('((_ is PENeg) %s)' % b, '((_ is PEBin) %s)' % b))}))]
        if base.sort == 'OptTok' and attr == 'text':
            ex.oblige(st, 'safety.op_present', NOT(base.meta['none']), 'safety')
            return [(st, SV('Str', base.e))]
        if base.sort in ('CA', 'CAOpt') and attr in ('head', 'body'):
            if base.sort == 'CAOpt':
                ex.oblige(st, 'safety.attr.%s_of_clause' % attr, base.meta['isclause'], 'safety')
            return [(st, SV('Body', '(%s %s)' % ('cahead' if attr == 'head' else 'cabody', base.e)))]
        if base.sort == 'TA' and attr == 'name':
            # Functor.name is the object the functor was built from; Atom objects have .value
            ex.oblige(st, 'safety.attr.name_of_functor', '((_ is TAFun) %s)' % base.e, 'safety')
            return [(st, SV('TAName', '(tafname %s)' % base.e))]
        if base.sort == 'TA' and attr == 'args':
            ex.oblige(st, 'safety.attr.args_of_functor', '((_ is TAFun) %s)' % base.e, 'safety')
            return [(st, SV('TAL', '(tafargs %s)' % base.e))]
        if base.sort == 'TAName' and attr == 'value':
            return [(st, SV('Str', base.e))]
        return self._sup('attr_read', ex, base, attr, st, node)

    def attr_write(self, ex, base, attr, v, st, node):
        if base.sort == 'CA' and attr == 'ctx':
            return [(st, None)]        # bookkeeping reference to the parse-tree node (used for error positions only)
        if base.sort == 'CSelf' and attr == 'anonymousVariableCounter' and v.sort == 'Int':
            st.comp['avc'] = v.e
            return [(st, None)]
        return self._sup('attr_write', ex, base, attr, v, st, node)

    def isinstance(self, ex, v, cls, st, node):
        if v.sort == 'TA' and cls in ('Atom', 'Functor'):
            return '((_ is %s) %s)' % ('TAAtom' if cls == 'Atom' else 'TAFun', v.e)
        if v.sort == 'CAOpt' and cls == 'Clause':
            return v.meta['isclause']
        if v.sort == 'CA' and cls == 'Clause':
            return 'true'
        if v.sort == 'TAName' and cls == 'Atom':
            return 'true'      # TAFun is only ever built from an Atom (obligation safety.functor_name_is_atom)
        return self._sup('isinstance', ex, v, cls, st, node)

    def truthy(self, ex, v):
        if v.sort in ('OptTok', 'OptTP', 'OptTT', 'OptTTL', 'OptPE', 'OptCL'):
            return NOT(v.meta['none'])
        return None

    def is_none(self, ex, other, st):
        if other.sort in ('OptSP', 'OptTok', 'OptTP', 'OptTT', 'OptTTL', 'OptPE', 'OptCL'):
            return other.meta['none']
        if other.sort in ('TA', 'TAL', 'TT', 'TTL', 'Body', 'Token'):
            return 'false'
        return None

    def equal(self, ex, e, op, a, b, st):
        if a.sort == 'PEChildren' and b.sort == 'PyList' and not b.meta['items']:
            return '((_ is PESimple) %s)' % a.e
        if a.sort == 'TTChildren' and b.sort == 'PyList' and not b.meta['items']:
            t = a.e
            return NOT(OR(*['((_ is %s) %s)' % (c, t) for c in ('TTUn', 'TTBin', 'TTParen', 'TTPairs')]))
        return self._sup('equal', ex, e, op, a, b, st)

    # ---- constructors and builtins
    def apply_name(self, ex, e, name, args, st):
        so = [a.sort for a in args]
        if name == 'Functor' and len(args) == 2 and args[0].sort == 'TA':
            # the name object must be an Atom for the AST to be usable (name.value)
            ex.oblige(st, 'safety.functor_name_is_atom', '((_ is TAAtom) %s)' % args[0].e, 'safety')
            lst = self.coerce(ex, args[1], 'TAL', st) if args[1].sort != 'TAL' else args[1]
            if lst is not None:
                return [(st, SV('TA', '(TAFun (taval %s) %s)' % (args[0].e, lst.e)))]
        if name == 'Atom' and so == ['Str']:
            return [(st, SV('TA', '(TAAtom %s)' % args[0].e))]
        if name == 'NumeralTerm' and so == ['Str']:
            return [(st, SV('TA', '(TANum %s)' % args[0].e))]
        if name == 'VariableTerm' and so == ['Str']:
            return [(st, SV('TA', '(TAVar %s)' % args[0].e))]
        if name == 'AnonymousVariableTerm' and so == ['Int']:
            return [(st, SV('TA', '(TAVar %s)' % anon_name_expr(ex.modname, args[0].e, e)))]
        if name == 'ListTerm' and so == ['TAL']:
            return [(st, SV('TA', '(TAListT %s)' % args[0].e))]
        if name == 'ListPairTerm' and so == ['TA', 'TA']:
            return [(st, SV('TA', '(TAPair %s %s)' % (args[0].e, args[1].e)))]
        if name == 'len' and so == ['TAL']:
            return [(st, SV('Int', '(talen %s)' % args[0].e))]
        if name == 'Clause' and so == ['Body', 'Body']:
            return [(st, SV('CA', '(mkCA %s %s)' % (args[0].e, args[1].e)))]
        if name == 'Predicate' and so == ['TA']:
            ex.oblige(st, 'safety.predicate_of_functor', '((_ is TAFun) %s)' % args[0].e, 'safety')
            return [(st, SV('Body', '(predof %s)' % args[0].e))]
        return self._sup('apply_name', ex, e, name, args, st)

    def binop(self, ex, e, a, b, st):
        if isinstance(e.op, ast.Add) and a.sort == 'PyList' and b.sort == 'TAL' and all(i.sort == 'TA' for i in a.meta['items']):
            out = b.e
            for i in reversed(a.meta['items']):
                out = '(tacons %s %s)' % (i.e, out)
            return SV('TAL', out)
        return self._sup('binop', ex, e, a, b, st)

    # ---- context accessors
    def apply_method(self, ex, e, base, meth, args, st):
        b = base.e
        is_ = lambda c, x=b: '((_ is %s) %s)' % (c, x)      # noqa: E731
        if base.sort == 'PE':
            if meth == 'simplepredicate' and not args:
                return [(st, SV('OptSP', '(pesp %s)' % b, {'none': NOT(is_('PESimple'))}))]
            if meth == 'predicateexpression' and not args:
                return [(st, SV('PEChildren', b))]
            if meth == 'predicateexpression' and len(args) == 1 and args[0].e in ('0', '1'):
                if args[0].e == '0':
                    ex.oblige(st, 'safety.child0_present', NOT(is_('PESimple')), 'safety')
                    return [(st, SV('PE', ITE(is_('PENeg'), '(pen %s)' % b, ITE(is_('PEBin'), '(pel %s)' % b, '(pep %s)' % b))))]
                ex.oblige(st, 'safety.child1_present', is_('PEBin'), 'safety')
                return [(st, SV('PE', '(per %s)' % b))]
        if base.sort == 'PG' and meth == 'clauseordirective':
            if not args:
                return [(st, SV('CDList', b))]
            if len(args) == 1 and args[0].sort == 'Int':
                ex.oblige(st, 'safety.index', AND('(<= 0 %s)' % args[0].e, '(< %s (seq.len %s))' % (args[0].e, b)), 'safety')
                return [(st, SV('CD', '(seq.nth %s %s)' % (b, args[0].e)))]
        if base.sort == 'CD' and not args:
            if meth == 'clause':
                return [(st, SV('OptCL', '(cdcl %s)' % b, {'none': NOT(is_('CDClause'))}))]
            if meth == 'directive':
                ex.oblige(st, 'safety.directive_present', is_('CDDir'), 'safety')
                return [(st, SV('SP', '(cddir %s)' % b))]
        if base.sort == 'Body' and meth == 'args' and not args:
            ex.oblige(st, 'safety.args_of_predicate', OR(is_('BPred'), is_('BCutIf')), 'safety')
            return [(st, SV('TAL', '(tafargs (predta (pid %s)))' % b))]
        if base.sort == 'CL' and not args:
            if meth == 'simplepredicate':
                return [(st, SV('SP', '(clhd %s)' % b))]
            if meth == 'predicateexpression':
                return [(st, SV('OptPE', '(clbody %s)' % b, {'none': NOT(is_('CLRule'))}))]
        if base.sort == 'Body' and meth == 'name' and not args:
            # Predicate.name(): only Predicate objects have it
            ex.oblige(st, 'safety.name_of_predicate', OR(is_('BPred'), is_('BCutIf')), 'safety')
            return [(st, SV('Str', core.ITE(is_('BCutIf'), smt_str('$CUTIF'), '(tafname (predta (pid %s)))' % b)))]
        if base.sort == 'SP' and not args:
            tok = {'TRUE': 'SPTrue', 'FAIL': 'SPFail', 'CUT': 'SPCut'}
            if meth in tok:
                return [(st, SV('OptTok', smt_str(meth), {'none': NOT(is_(tok[meth]))}))]
            if meth == 'termpredicate':
                return [(st, SV('OptTT', '(sptt %s)' % b, {'none': NOT(is_('SPTerm'))}))]
        if base.sort == 'TT':
            poss = possible_ctors(st, b, TT_CTORS)
            if len(poss) == 1:
                # the path condition fixes the alternative: say so (implied) and select directly
                only = next(iter(poss))
                if is_(only) not in st.pc:
                    st.assume(is_(only))

                def sel(c, x, y, _b=b, _only=only):
                    m = re.fullmatch(r'\(\(_ is (\w+)\) %s\)' % re.escape(_b), c)
                    return (x if m.group(1) == _only else y) if m else core.ITE(c, x, y)
            else:
                sel = core.ITE
            if not args:
                if meth == 'term':      # termpredicate: term   (the context of a termpredicate is identified with its term)
                    if ex.qualname.endswith('visitTermpredicate'):
                        return [(st, SV('TT', b))]
                    return [(st, SV('TTChildren', b))]
                if meth == 'atom':
                    # rule term: alternative `atom`;   rule functor: the name
                    if ex.qualname.endswith('visitFunctor'):
                        return [(st, SV('TT', '(ttfa %s)' % b))]
                    return [(st, SV('OptTT', b, {'none': NOT(OR(is_('TTAtom'), is_('TTNum'), is_('TTStr')))}))]
                if meth == 'functor':
                    return [(st, SV('OptTT', b, {'none': NOT(is_('TTFun'))}))]
                if meth == 'termlist':
                    if ex.qualname.endswith('visitFunctor'):
                        return [(st, SV('TTL', '(ttfargs %s)' % b))]
                    lst = sel(is_('TTList'), '(ttitems %s)' % b, '(ttprest %s)' % b)
                    return [(st, SV('OptTTL', lst, {'none': NOT(OR(is_('TTList'), AND(is_('TTPairs'), '(ttphas %s)' % b)))}))]
                if ex.qualname.endswith('visitAtom'):
                    toks = {'NUMERAL': ('TTNum', 'ttntext'), 'STRING': ('TTStr', 'ttstext'), 'ATOM': ('TTAtom', 'ttatext')}
                    if meth in toks:
                        c, sel = toks[meth]
                        return [(st, SV('OptTok', '(%s %s)' % (sel, b), {'none': NOT(is_(c))}))]
                if meth == 'ATOM':      # rule term: only in ATOM '/' NUMERAL
                    return [(st, SV('OptTok', '(ttsa %s)' % b, {'none': NOT(is_('TTSlash'))}))]
                if meth == 'NUMERAL':
                    return [(st, SV('OptTok', '(ttsn %s)' % b, {'none': NOT(is_('TTSlash'))}))]
                if meth == 'UNOP':
                    return [(st, SV('OptTok', '(ttuop %s)' % b, {'none': NOT(is_('TTUn'))}))]
                if meth == 'BINOP':
                    return [(st, SV('OptTok', '(ttbop %s)' % b, {'none': NOT(is_('TTBin'))}))]
                if meth == 'LBRACK':
                    return [(st, SV('OptTok', smt_str('['), {'none': NOT(OR(is_('TTList'), is_('TTPairs')))}))]
                if meth == 'VARIABLE':
                    return [(st, SV('OptTok', sel(is_('TTVar'), '(ttv %s)' % b, '(ttptail %s)' % b),
                                {'none': NOT(OR(is_('TTVar'), is_('TTPairs')))}))]
            if meth == 'term' and len(args) == 1 and args[0].e in ('0', '1'):
                if args[0].e == '0':
                    ex.oblige(st, 'safety.term0_present', OR(is_('TTUn'), is_('TTBin'), is_('TTParen'), is_('TTPairs')), 'safety')
                    return [(st, SV('TT', sel(is_('TTUn'), '(ttu1 %s)' % b, sel(is_('TTBin'), '(ttb1 %s)' % b,
                                                                              sel(is_('TTParen'), '(ttp %s)' % b, '(ttph %s)' % b)))))]
                ex.oblige(st, 'safety.term1_present', is_('TTBin'), 'safety')
                return [(st, SV('TT', '(ttb2 %s)' % b))]
        if base.sort == 'TT' and meth == 'getText' and not args:
            return [(st, SV('Str', '(ttsrc %s)' % b))]
        if base.sort == 'OptTok' and meth == 'getText' and not args:
            ex.oblige(st, 'safety.token_present', NOT(base.meta['none']), 'safety')
            return [(st, SV('Str', base.e))]
        if base.sort == 'Token' and meth == 'getText' and not args:
            return [(st, SV('Str', base.e))]
        return self._sup('apply_method', ex, e, base, meth, args, st)

    def coerce(self, ex, a, want, st):
        want0 = want.split(':')[0]
        if want0 == 'SP' and a.sort == 'OptSP':
            ex.oblige(st, 'safety.simplepredicate_present', NOT(a.meta['none']), 'safety')
            return SV('SP', a.e)
        if want0 == 'TT' and a.sort == 'OptTT':
            ex.oblige(st, 'safety.child_present', NOT(a.meta['none']), 'safety')
            return SV('TT', a.e)
        if want0 == 'CL' and a.sort == 'OptCL':
            ex.oblige(st, 'safety.clause_present', NOT(a.meta['none']), 'safety')
            return SV('CL', a.e)
        if want0 == 'CAOpt' and a.sort == 'CA':
            return SV('CAOpt', a.e, {'isclause': 'true'})
        if want0 == 'CAOpt' and a.sort == 'NonClause':
            return SV('CAOpt', ex.fresh('CA', 'noclause'), {'isclause': 'false'})
        if want0 == 'PE' and a.sort == 'OptPE':
            ex.oblige(st, 'safety.body_present', NOT(a.meta['none']), 'safety')
            return SV('PE', a.e)
        if want0 == 'TTL' and a.sort == 'OptTTL':
            ex.oblige(st, 'safety.termlist_present', NOT(a.meta['none']), 'safety')
            return SV('TTL', a.e)
        if want0 == 'Token' and a.sort == 'OptTok':
            ex.oblige(st, 'safety.token_present', NOT(a.meta['none']), 'safety')
            return SV('Token', a.e)
        if want0 == 'TAL' and a.sort == 'PyList' and all(i.sort == 'TA' for i in a.meta['items']):
            out = 'tanil'
            for i in reversed(a.meta['items']):
                out = '(tacons %s %s)' % (i.e, out)
            return SV('TAL', out)
        return self._sup('coerce', ex, a, want, st)

    # ---- [self.visitTerm(ctx.term(i)) for i in range(len(ctx.term()))]: the calls happen left to right, each on the
    #      counter the previous one left.  With F/N the list lifts of the callee's result/advance (ghost `comprehension`),
    #      the value is F(list, avc) and the counter advances by N(list); that F/N are those lifts is an obligation.
    def ev_ListComp(self, ex, e, st):
        lift = ex.c.ghost.get('comprehension')
        g = e.generators[0] if len(e.generators) == 1 else None
        if not lift or g is None or g.ifs or g.is_async or not isinstance(g.target, ast.Name):
            return None
        # the element-wise image of the child list under visitTerm, in order: by index or by direct iteration, any variable name
        v_ = g.target.id
        elt, it = ast.unparse(e.elt), ast.unparse(g.iter)
        if (elt, it) not in (('self.visitTerm(ctx.term(%s))' % v_, 'range(len(ctx.term()))'), ('self.visitTerm(%s)' % v_, 'ctx.term()'),
                             ('self.visitTerm(ctx.term(%s))' % v_, 'range(0, len(ctx.term()))')):
            return None
        ctx = st.env.get('ctx')
        if ctx is None or ctx.sort != 'TTL':
            return None
        F, N = lift
        c = ex.reg['yp_prolog_visitor.YPPrologVisitor.visitTerm']
        # the callee's precondition holds for every element (consequence of the list-level precondition: by definition of
        # ttwfl/ttsupl) and the counter stays non-negative
        h, r, n = ex.fresh('TT', 'lift_h'), ex.fresh('TTL', 'lift_r'), ex.fresh('Int', 'lift_n')
        lem = st.fork().tag('lift')
        ex.oblige(lem, 'comprehension.lift.cons', AND(
            EQ('(%s (ttcons %s %s) %s)' % (F, h, r, n), '(tacons (tast %s %s) (%s %s (+ %s (tcnt %s))))' % (h, n, F, r, n, h)),
            EQ('(%s (ttcons %s %s))' % (N, h, r), '(+ (tcnt %s) (%s %s))' % (h, N, r)),
            EQ('(%s ttnil %s)' % (F, n), 'tanil'), EQ('(%s ttnil)' % N, '0'),
            '(=> (and ((_ is ttcons) %s) (ttwfl %s) (ttsupl %s)) (and (ttwf (tthd %s)) (ttsup (tthd %s)) (ttwfl (tttl %s)) (ttsupl (tttl %s))))'
            % ((ex.fresh('TTL', 'lift_l'),) * 7)),
            'post')
        ex.oblige(st, 'comprehension.requires', AND('(ttwfl %s)' % ctx.e, '(ttsupl %s)' % ctx.e, '(>= %s 0)' % st.comp['avc']), 'pre')
        assert c.ensures == ['(= {result} (tast {ctx} {avc0}))', '(= {avc} (+ {avc0} (tcnt {ctx})))'], 'visitTerm contract changed: update the lift rule'
        old = st.comp['avc']
        st.comp['avc'] = '(+ %s (%s %s))' % (old, N, ctx.e)
        outs = [(st, SV('TAL', '(%s %s %s)' % (F, ctx.e, old)))]
        for cls_ in c.raises:
            outs.append((st.fork().tag('comprehension.raises:' + cls_), Exc(cls_)))
        return outs

    def adjust_assign(self, ex, tgt, v, st):
        if isinstance(tgt, ast.Name) and v.sort == 'PyDict' and not v.meta.get('items'):
            # the program dictionary: insertion-ordered keys + key -> clause list (absent keys read as the empty list)
            return SV('PDict', None, {'keys': '(as seq.empty (Seq PK))', 'vals': '((as const (Array PK (Seq CA))) (as seq.empty (Seq CA)))'})
        return self._sup('adjust_assign', ex, tgt, v, st)

    def havoc_sv(self, ex, st, v, hint):
        if v.sort == 'PDict':
            return SV('PDict', None, {'keys': ex.fresh('(Seq PK)', hint + '_keys'), 'vals': ex.fresh('(Array PK (Seq CA))', hint + '_vals')})
        if v.sort in ('PG', 'CD', 'CDList', 'CA', 'CAOpt', 'TT', 'TTL', 'SP', 'PE', 'CL'):
            return v
        return self._sup('havoc_sv', ex, st, v, hint)

    def st_For(self, ex, s, v, st, k):
        return self._sup('st_For', ex, s, v, st, k) or False

    def for_enumerate(self, ex, s, st, k):
        """for i, x in enumerate(<list of parse-tree children>): index-based"""
        it = s.iter
        if not (isinstance(it, ast.Call) and isinstance(it.func, ast.Name) and it.func.id == 'enumerate' and len(it.args) == 1
                and isinstance(s.target, ast.Tuple) and len(s.target.elts) == 2 and all(isinstance(t, ast.Name) for t in s.target.elts)):
            return False
        outs = ex.eval(it.args[0], st)
        if len(outs) != 1 or isinstance(outs[0][1], Exc) or outs[0][1].sort != 'CDList':
            return False
        st2, lst = outs[0]
        n, spec = ex.loop_spec(s)
        if spec is None:
            raise OutOfSubset('loop %d of %s has no invariant in the sidecar contract' % (n, ex.qualname), s)
        s2 = ast.For(target=ast.Name(id='__item', ctx=ast.Store()), iter=s.iter,
                     body=[ast.Assign(targets=[s.target], value=ast.Name(id='__item', ctx=ast.Load()), lineno=s.lineno)] + s.body, orelse=[])
        ast.copy_location(s2, s)
        ast.fix_missing_locations(s2)
        ex.loop_ord[id(s2)] = n
        ex._for_range(s2, n, spec, SV('Int', '(seq.len %s)' % lst.e), st2, k,
                      elem=lambda kx: SV('Tuple', None, {'items': [SV('Int', kx), SV('CD', '(seq.nth %s %s)' % (lst.e, kx))]}))
        return True

    def call_name_ast(self, ex, e, st):
        # D.setdefault(KEY, []).append(V) on the program dictionary: a new key goes to the end of the key order; V is appended to
        # the key's list (which is the empty list for a new key)
        f = e.func
        if isinstance(f, ast.Attribute) and f.attr == 'append' and len(e.args) == 1 and isinstance(f.value, ast.Call) \
                and isinstance(f.value.func, ast.Attribute) and f.value.func.attr == 'setdefault' and isinstance(f.value.func.value, ast.Name) \
                and len(f.value.args) == 2 and ast.unparse(f.value.args[1]) == '[]':
            dname = f.value.func.value.id
            d = st.env.get(dname)
            if d is not None and d.sort == 'PDict':
                outs = []
                for st2, key in ex.eval(f.value.args[0], st):
                    if isinstance(key, Exc):
                        outs.append((st2, key))
                        continue
                    for st3, v in ex.eval(e.args[0], st2):
                        if isinstance(v, Exc):
                            outs.append((st3, v))
                            continue
                        if key.sort != 'Tuple' or [i.sort for i in key.meta['items']] != ['Str', 'Int'] or v.sort not in ('CA', 'CAOpt'):
                            raise OutOfSubset('program dictionary update', e)
                        if v.sort == 'CAOpt':
                            ex.oblige(st3, 'safety.clause_stored', v.meta['isclause'], 'safety')
                        kk = '(mkPK %s %s)' % (key.meta['items'][0].e, key.meta['items'][1].e)
                        cur = st3.env[dname]
                        keys = ITE('(seq.contains %s (seq.unit %s))' % (cur.meta['keys'], kk), cur.meta['keys'],
                                   '(seq.++ %s (seq.unit %s))' % (cur.meta['keys'], kk))
                        vals = '(store %s %s (seq.++ (select %s %s) (seq.unit %s)))' % (cur.meta['vals'], kk, cur.meta['vals'], kk, v.e)
                        st3.env[dname] = SV('PDict', None, {'keys': keys, 'vals': vals})
                        outs.append((st3, NONE))
                return outs
        r = fold_rule(ex, e, st, 'TA', 'TAL', 'tacons', 'tanil', self)
        if r is not None:
            return r
        return self._sup('call_name_ast', ex, e, st)

    def smt_sort(self, sort):
        return {'Label': 'Int', 'Token': 'String', 'PG': '(Seq CD)', 'CAOpt': 'CA', 'NonClause': 'Int'}.get(sort)


def _sexp(text):
    toks = text.replace('(', ' ( ').replace(')', ' ) ').split()
    pos = [0]

    def rd():
        t = toks[pos[0]]
        pos[0] += 1
        if t == '(':
            out = []
            while toks[pos[0]] != ')':
                out.append(rd())
            pos[0] += 1
            return out
        return t
    try:
        return rd()
    except IndexError:
        return None


def possible_ctors(st, b, ctors):
    """the constructors of the datatype value `b` compatible with the recogniser facts of the path condition (three-valued
    evaluation of every path-condition conjunct built from (_ is C) b / and / or / not; anything else counts as unknown)"""
    def ev(x, c):
        if x == 'true':
            return True
        if x == 'false':
            return False
        if isinstance(x, list) and len(x) == 2 and isinstance(x[0], list) and x[0][:2] == ['_', 'is'] and x[1] == b:
            return x[0][2] == c
        if isinstance(x, list) and x and x[0] == 'not' and len(x) == 2:
            v = ev(x[1], c)
            return None if v is None else not v
        if isinstance(x, list) and x and x[0] in ('and', 'or'):
            vs = [ev(y, c) for y in x[1:]]
            if x[0] == 'and':
                return False if False in vs else (None if None in vs else True)
            return True if True in vs else (None if None in vs else False)
        return None
    if not re.fullmatch(r'[A-Za-z_][\w!]*', b):
        return set(ctors)
    forms = [_sexp(p) for p in st.pc if b in p and ' is ' in p]
    return {c for c in ctors if all(ev(f, c) is not False for f in forms if f is not None)}


TT_CTORS = ('TTAtom', 'TTNum', 'TTStr', 'TTFun', 'TTSlash', 'TTVar', 'TTUn', 'TTBin', 'TTParen', 'TTList', 'TTPairs')


def fold_rule(ex, e, st, elem, lsort, cons, nil, theory):
    """functools.reduce(lambda x, y: BODY, reversed(l), INIT) is the right fold of l (A-EXT-REDUCE).  Against the recursive spec
    function named by the contract (ghost fold_spec, a template over {l} and {init}): base F(nil, INIT) = INIT,
    step BODY[x := F(t, INIT), y := h] = F(cons h t, INIT); then the value is F(l, INIT)."""
    if not (ast.unparse(e.func) == 'functools.reduce' and len(e.args) == 3 and isinstance(e.args[0], ast.Lambda)
            and len(e.args[0].args.args) == 2 and isinstance(e.args[1], ast.Call) and ast.unparse(e.args[1].func) == 'reversed'
            and len(e.args[1].args) == 1 and isinstance(e.args[1].args[0], ast.Name) and ex.c.ghost.get('fold_spec')):
        return None
    spec = ex.c.ghost['fold_spec']
    lv = st.env.get(e.args[1].args[0].id)
    if lv is not None and lv.sort == 'PyList':
        lv = theory.coerce(ex, lv, lsort, st)
    if lv is None or lv.sort != lsort:
        return None
    inits = ex.eval(e.args[2], st)
    if len(inits) != 1 or isinstance(inits[0][1], Exc) or inits[0][1].sort != elem:
        return None
    init = inits[0][1].e
    F = lambda l: spec.replace('{l}', l).replace('{init}', init)      # noqa: E731
    ex.oblige(st.fork().tag('fold.base'), 'fold.base', EQ(F(nil), init), 'post')
    h, t = ex.fresh(elem, 'fold_h'), ex.fresh(lsort, 'fold_t')
    xn, yn = [a.arg for a in e.args[0].args.args]
    stb = st.fork().tag('fold.step')
    stb.env = dict(stb.env)
    stb.env[xn] = SV(elem, F(t))
    stb.env[yn] = SV(elem, h)
    for st3, v in ex.eval(e.args[0].body, stb):
        if isinstance(v, Exc) or v.sort != elem:
            ex.oblige(st3, 'fold.step', 'false', 'post')
        else:
            ex.oblige(st3, 'fold.step', EQ(v.e, F('(%s %s %s)' % (cons, h, t))), 'post')
    return [(st, SV(elem, F(lv.e)))]
