"""Theory plug-in for yp_prolog_visitor.YPPrologVisitor (string functions: unquoteString, visitVARIABLE, ...)."""
import ast

from .core import SV, NONE, OutOfSubset, AND, OR, NOT, EQ, ITE, smt_str
from .exec import Exc
from .theory import Theory
from . import core


class VisitorTheory(Theory):
    COMPS = [('avc', 'Int')]
    NO_TERM_COMPS = True

    def mk_param(self, ex, st, n, sort, sub):
        if sort == 'VSelf':
            return SV('VSelf', None)
        if sort == 'Token':
            return SV('Token', ex.fresh('String', n + '_text'))
        return None

    def attr_read(self, ex, base, attr, st, node):
        if base.sort == 'VSelf' and attr == 'anonymousVariableCounter':
            return [(st, SV('Int', st.comp['avc']))]
        if base.sort == 'VarAst' and attr == 'varname':
            return [(st, SV('Str', base.e))]
        return None

    def attr_write(self, ex, base, attr, v, st, node):
        if base.sort == 'VSelf' and attr == 'anonymousVariableCounter' and v.sort == 'Int':
            st.comp['avc'] = v.e
            return [(st, None)]
        return None

    def global_name(self, ex, name, st):
        # module-level constant tuples of strings
        mod = core.module(ex.modname)
        for s in mod.tree.body:
            if isinstance(s, ast.Assign) and len(s.targets) == 1 and isinstance(s.targets[0], ast.Name) and s.targets[0].id == name \
                    and isinstance(s.value, ast.Tuple) and all(isinstance(e, ast.Constant) and isinstance(e.value, str) for e in s.value.elts):
                return SV('PyList', None, {'items': [SV('Str', smt_str(e.value), {'lit': e.value}) for e in s.value.elts]})
        return None

    def subscript(self, ex, e, base, idx, st):
        if base.sort == 'Str' and idx.sort == 'Int':
            ex.oblige(st, 'safety.index', AND('(<= 0 %s)' % idx.e, '(< %s (str.len %s))' % (idx.e, base.e)), 'safety')
            return [(st, SV('Str', '(str.at %s %s)' % (base.e, idx.e)))]
        return None

    def slice(self, ex, e, base, st):
        sl = e.slice
        if base.sort == 'Str' and sl.upper is None and sl.step is None and sl.lower is not None:
            outs = []
            for st2, lo in ex.eval(sl.lower, st):
                if isinstance(lo, Exc) or lo.sort != 'Int':
                    raise OutOfSubset('slice bound', e)
                # s[lo:] for 0 <= lo (Python clamps lo > len to the empty string, as str.substr does)
                ex.oblige(st2, 'safety.slice_lower_nonneg', '(>= %s 0)' % lo.e, 'safety')
                outs.append((st2, SV('Str', '(str.substr %s %s (- (str.len %s) %s))' % (base.e, lo.e, base.e, lo.e))))
            return outs
        return None

    def apply_method(self, ex, e, base, meth, args, st):
        if base.sort == 'Token' and meth == 'getText' and not args:
            return [(st, SV('Str', base.e))]
        if base.sort == 'Str' and meth == 'startswith' and len(args) == 1 and args[0].sort == 'Str':
            return [(st, SV('Bool', '(str.prefixof %s %s)' % (args[0].e, base.e)))]
        if base.sort == 'Str' and meth == 'strip' and len(args) == 1 and args[0].sort == 'Str' and args[0].e == smt_str('_'):
            # only the emptiness of the stripped string is ever used: keep the operand, mark it
            return [(st, SV('Stripped_', base.e))]
        return None

    def equal(self, ex, e, op, a, b, st):
        if a.sort == 'Stripped_' and b.sort == 'Str' and b.e == '""':
            return '(str.in_re %s (re.* (str.to_re "_")))' % a.e
        return None

    def apply_name(self, ex, e, name, args, st):
        if name == 'VariableTerm' and len(args) == 1 and args[0].sort == 'Str':
            return [(st, SV('VarAst', args[0].e, {'anon': 'false'}))]
        if name == 'AnonymousVariableTerm' and len(args) == 1 and args[0].sort == 'Int':
            # class AnonymousVariableTerm: varname = f'x{num+1}'
            cls = core.module(ex.modname).classes.get('AnonymousVariableTerm')
            src = ast.unparse(cls) if cls else ''
            if "self.varname = f'x{self.num + 1}'" not in src:
                raise OutOfSubset('AnonymousVariableTerm no longer names its variable x<num+1>', e)
            return [(st, SV('VarAst', '(str.++ "x" (str.from_int (+ %s 1)))' % args[0].e, {'anon': 'true'}))]
        if name == 'len' and len(args) == 1 and args[0].sort == 'Str':
            return [(st, SV('Int', '(str.len %s)' % args[0].e))]
        return None

    def call_name_ast(self, ex, e, st):
        # any(<cond> for r in <constant tuple>): unrolled disjunction
        if isinstance(e.func, ast.Name) and e.func.id == 'any' and len(e.args) == 1 and isinstance(e.args[0], ast.GeneratorExp):
            g = e.args[0]
            if len(g.generators) == 1 and not g.generators[0].ifs and isinstance(g.generators[0].target, ast.Name):
                gen = g.generators[0]
                outs = []
                for st2, seq in ex.eval(gen.iter, st):
                    if isinstance(seq, Exc) or seq.sort != 'PyList':
                        raise OutOfSubset('any() over a non-constant sequence', e)
                    conds = []
                    cur = st2
                    for item in seq.meta['items']:
                        cur.env[gen.target.id] = item
                        res = ex.eval_cond(g.elt, cur)
                        if len(res) != 1 or isinstance(res[0][1], Exc):
                            raise OutOfSubset('any() element with control flow', e)
                        cur, c = res[0]
                        conds.append(c)
                    cur.env.pop(gen.target.id, None)
                    outs.append((cur, SV('Bool', OR(*conds))))
                return outs
        return None

    def mk_ret(self, ex, sort, e, st):
        if sort == 'VarAst':
            return SV('VarAst', e)
        return None

    def smt_sort(self, sort):
        return {'VarAst': 'String'}.get(sort)


from .theory_compiler import CompilerTheory  # noqa: E402


class ParseTheory(CompilerTheory):
    """ANTLR parse-tree contexts of `predicateexpression` / `simplepredicate` / `termpredicate` as the datatypes PE / SP
    (spec/control.smt2); accessor methods of the generated context classes (simplepredicate(), op, predicateexpression(i),
    TRUE(), FAIL(), CUT(), termpredicate(), term()) as selectors with presence conditions; the term AST of a goal as TA."""
    COMPS = []
    NO_TERM_COMPS = True

    def mk_param(self, ex, st, n, sort, sub):
        if sort in ('PE', 'SP'):
            return SV(sort, ex.fresh(sort, n))
        if sort in ('TP', 'TermCtx'):
            return SV(sort, ex.fresh('Int', n))
        return CompilerTheory.mk_param(self, ex, st, n, sort, sub)

    def mk_ret(self, ex, sort, e, st):
        if sort == 'TA':
            return SV('TA', e, {'nameatom': '(nameisatom %s)' % e})
        return CompilerTheory.mk_ret(self, ex, sort, e, st)

    def attr_read(self, ex, base, attr, st, node):
        if base.sort == 'PE' and attr == 'op':
            b = base.e
            return [(st, SV('OptTok', ITE('((_ is PENeg) %s)' % b, smt_str('\\+'), '(peop %s)' % b),
                        {'none': NOT(OR('((_ is PENeg) %s)' % b, '((_ is PEBin) %s)' % b))}))]
        if base.sort == 'OptTok' and attr == 'text':
            ex.oblige(st, 'safety.op_present', NOT(base.meta['none']), 'safety')
            return [(st, SV('Str', base.e))]
        if base.sort == 'TA' and attr == 'name':
            ex.oblige(st, 'safety.attr.name_of_functor', '((_ is TAFun) %s)' % base.e, 'safety')
            return [(st, SV('TAName', '(tafname %s)' % base.e, {'isatom': base.meta.get('nameatom', 'false')}))]
        if base.sort == 'TA' and attr == 'args':
            ex.oblige(st, 'safety.attr.args_of_functor', '((_ is TAFun) %s)' % base.e, 'safety')
            return [(st, SV('TAL', '(tafargs %s)' % base.e))]
        if base.sort == 'TAName' and attr == 'value':
            ex.oblige(st, 'safety.attr.value_of_atom', base.meta['isatom'], 'safety')
            return [(st, SV('Str', base.e))]
        return CompilerTheory.attr_read(self, ex, base, attr, st, node)

    def isinstance(self, ex, v, cls, st, node):
        if v.sort == 'TA' and cls in ('Atom', 'Functor'):
            return '((_ is %s) %s)' % ('TAAtom' if cls == 'Atom' else 'TAFun', v.e)
        if v.sort == 'TAName' and cls == 'Atom':
            return v.meta['isatom']
        return CompilerTheory.isinstance(self, ex, v, cls, st, node)

    def truthy(self, ex, v):
        if v.sort in ('OptTok', 'OptTP'):
            return NOT(v.meta['none'])
        return None

    def is_none(self, ex, other, st):
        if other.sort in ('OptSP', 'OptTok', 'OptTP'):
            return other.meta['none']
        return None

    def equal(self, ex, e, op, a, b, st):
        if a.sort == 'PEChildren' and b.sort == 'PyList' and not b.meta['items']:
            return '((_ is PESimple) %s)' % a.e
        return CompilerTheory.equal(self, ex, e, op, a, b, st)

    def apply_name(self, ex, e, name, args, st):
        if name == 'Functor' and len(args) == 2 and args[0].sort == 'TA' and args[1].sort == 'PyList' and not args[1].meta['items']:
            # Functor(atom, []): the name object is the Atom passed in
            ex.oblige(st, 'safety.functor_name_is_atom', '((_ is TAAtom) %s)' % args[0].e, 'safety')
            return [(st, SV('TA', '(TAFun (taval %s) tanil)' % args[0].e, {'nameatom': 'true'}))]
        if name == 'len' and len(args) == 1 and args[0].sort == 'TAL':
            return [(st, SV('Int', '(talen %s)' % args[0].e))]
        if name == 'Predicate' and len(args) == 1 and args[0].sort == 'TA':
            ex.oblige(st, 'safety.predicate_of_functor', AND('((_ is TAFun) %s)' % args[0].e, args[0].meta.get('nameatom', 'false')), 'safety')
            return [(st, SV('Body', '(predof %s)' % args[0].e))]
        return CompilerTheory.apply_name(self, ex, e, name, args, st)

    def apply_method(self, ex, e, base, meth, args, st):
        b = base.e
        if base.sort == 'PE':
            if meth == 'simplepredicate' and not args:
                return [(st, SV('OptSP', '(pesp %s)' % b, {'none': NOT('((_ is PESimple) %s)' % b)}))]
            if meth == 'predicateexpression' and not args:
                return [(st, SV('PEChildren', b))]
            if meth == 'predicateexpression' and len(args) == 1 and args[0].e in ('0', '1'):
                i = args[0].e
                if i == '0':
                    ex.oblige(st, 'safety.child0_present', NOT('((_ is PESimple) %s)' % b), 'safety')
                    return [(st, SV('PE', ITE('((_ is PENeg) %s)' % b, '(pen %s)' % b, ITE('((_ is PEBin) %s)' % b, '(pel %s)' % b, '(pep %s)' % b))))]
                ex.oblige(st, 'safety.child1_present', '((_ is PEBin) %s)' % b, 'safety')
                return [(st, SV('PE', '(per %s)' % b))]
        if base.sort == 'SP' and not args:
            tok = {'TRUE': 'SPTrue', 'FAIL': 'SPFail', 'CUT': 'SPCut'}
            if meth in tok:
                return [(st, SV('OptTok', smt_str(meth), {'none': NOT('((_ is %s) %s)' % (tok[meth], b))}))]
            if meth == 'termpredicate':
                return [(st, SV('OptTP', '(sptp %s)' % b, {'none': NOT('((_ is SPTerm) %s)' % b)}))]
        if base.sort == 'TP' and meth == 'term' and not args:
            return [(st, SV('TermCtx', b))]
        return CompilerTheory.apply_method(self, ex, e, base, meth, args, st)

    def coerce(self, ex, a, want, st):
        if want == 'SP' and a.sort == 'OptSP':
            ex.oblige(st, 'safety.simplepredicate_present', NOT(a.meta['none']), 'safety')
            return SV('SP', a.e)
        if want == 'TP' and a.sort == 'OptTP':
            ex.oblige(st, 'safety.termpredicate_present', NOT(a.meta['none']), 'safety')
            return SV('TP', a.e)
        return CompilerTheory.coerce(self, ex, a, want, st)

    def smt_sort(self, sort):
        return {'TP': 'Int', 'TermCtx': 'Int', 'Label': 'Int'}.get(sort)
