"""Theory plug-in for yp_generator.YPPythonCodeGenerator: YPCode trees as the datatypes PX / PS / PF of spec/render.smt2, the
emitted text as SMT strings.  The generator's state (indentation, loop_level, tabwidth) is the component triple gi / glv / gtw.

`c.generate(self)` on a tree node is the node's rendering by the contract family (every YPCode*.generate forwards to the
generate_* method of its class, each of which is verified against rstmt / rexpr / rfunc); a list comprehension
`[c.generate(self) for c in L]` is the sequence of the renderings of L in order; "\\n".join / ",".join of it is rlist / joinc by
their defining equations (emitted as an obligation at every use)."""
import ast

from .core import SV, NONE, OutOfSubset, AND, OR, NOT, EQ, ITE, smt_str
from .exec import Exc
from .theory import Theory

NL = '"\\u{a}"'
PS_CLASSES = {'YPCodeYieldFalse': 'PYieldF', 'YPCodeYieldTrue': 'PYieldT', 'YPCodeYieldBreak': 'PReturn', 'YPCodeAssign': 'PAssign',
              'YPCodeIf': 'PIf', 'YPCodeForeach': 'PFor', 'YPCodeBreakableBlock': 'PBlock', 'YPCodeBreakBlock': 'PBreak'}
PX_CLASSES = {'YPCodeVar': 'XVar', 'YPCodeValue': 'XVal', 'YPCodeExpr': 'XExpr', 'YPCodeList': 'XList', 'YPCodeCall': 'XCall'}
ATTRS = {('PS', 'lhs'): ('PAssign', 'pal', 'PX'), ('PS', 'rhs'): ('PAssign', 'parhs', 'PX'),
         ('PS', 'condition'): ('PIf', 'pic', 'PX'), ('PS', 'true_code'): ('PIf', 'pit', 'PSL'), ('PS', 'false_code'): ('PIf', 'pif', 'PSL'),
         ('PS', 'loop_expression'): ('PFor', 'pfe', 'PX'), ('PS', 'loop_code'): ('PFor', 'pfc', 'PSL'),
         ('PX', 'name'): ('XVar', 'xvname', 'Str'), ('PX', 'val'): ('XVal', 'xvtext', 'Str'), ('PX', 'expr'): ('XExpr', 'xe', 'EV'),
         ('PX', 'l'): ('XList', 'xlitems', 'PXL'), ('PX', 'func'): ('XCall', 'xcfun', 'Str'), ('PX', 'args'): ('XCall', 'xcargs', 'PXL'),
         ('PF', 'name'): (None, 'pfname', 'Str'), ('PF', 'args'): (None, 'pfargs', 'Names'), ('PF', 'body'): (None, 'pfbody', 'PSL')}


class GenTheory(Theory):
    COMPS = [('gi', 'Int'), ('glv', 'Int'), ('gtw', 'Int')]
    NO_TERM_COMPS = True
    FUNCTIONAL_POST = True

    def loop_modified_comps(self, ex, body):
        return {'gi', 'glv'}

    def st3(self, st):
        return '%s %s %s' % (st.comp['gtw'], st.comp['gi'], st.comp['glv'])

    def mk_param(self, ex, st, n, sort, sub):
        if sort in ('PS', 'PX', 'PSL', 'PXL', 'PF', 'EV'):
            e = ex.fresh(sort, n)
            if sub:
                st.assume('((_ is %s) %s)' % (sub, e))
            return SV(sort, e)
        if sort == 'PFS':
            return SV('PFS', ex.fresh('(Seq PF)', n))
        if sort == 'GSelf':
            return SV('GSelf', None)
        return None

    def mk_ret(self, ex, sort, e, st):
        if sort == 'Str':
            return SV('Str', e)
        return None

    def smt_sort(self, sort):
        return {'PFS': '(Seq PF)', 'Names': '(Seq String)'}.get(sort)

    def on_entry(self, ex, st):
        st.assume('(>= %s 0)' % st.comp['gi'])
        st.assume('(>= %s 0)' % st.comp['glv'])
        st.assume('(>= %s 0)' % st.comp['gtw'])

    def havoc_sv(self, ex, st, v, hint):
        return v

    # ---- attributes
    def attr_read(self, ex, base, attr, st, node):
        if base.sort == 'GSelf':
            m = {'indentation': 'gi', 'loop_level': 'glv', 'tabwidth': 'gtw'}
            if attr in m:
                return [(st, SV('Int', st.comp[m[attr]]))]
        if base.sort == 'PS' and attr == 'label':
            b = base.e
            ex.oblige(st, 'safety.attr.label', OR('((_ is PBlock) %s)' % b, '((_ is PBreak) %s)' % b), 'safety')
            return [(st, SV('Str', ITE('((_ is PBlock) %s)' % b, '(pblabel %s)' % b, '(pbklabel %s)' % b)))]
        if base.sort == 'PS' and attr == 'body':
            ex.oblige(st, 'safety.attr.body', '((_ is PBlock) %s)' % base.e, 'safety')
            return [(st, SV('PSL', '(pbbody %s)' % base.e))]
        key = (base.sort, attr)
        if key in ATTRS:
            ctor, sel, srt = ATTRS[key]
            if ctor:
                ex.oblige(st, 'safety.attr.' + attr, '((_ is %s) %s)' % (ctor, base.e), 'safety')
            return [(st, SV(srt, '(%s %s)' % (sel, base.e)))]
        if base.sort == 'PFS' and attr == 'functions':
            return [(st, base)]
        return None

    def attr_write(self, ex, base, attr, v, st, node):
        if base.sort == 'GSelf' and v.sort == 'Int':
            m = {'indentation': 'gi', 'loop_level': 'glv', 'tabwidth': 'gtw'}
            if attr in m:
                st.comp[m[attr]] = v.e
                return [(st, None)]
        return None

    # ---- strings
    def binop(self, ex, e, a, b, st):
        if isinstance(e.op, ast.Mult):
            if a.sort == 'Str' and a.e == smt_str(' ') and b.sort == 'Int':
                return SV('Blank', b.e)
            if a.sort == 'Blank' and b.sort == 'Int':
                return SV('Blank', '(* %s %s)' % (a.e, b.e))
        if isinstance(e.op, ast.Add):
            sa = '(sp %s)' % a.e if a.sort == 'Blank' else (a.e if a.sort == 'Str' else None)
            sb = '(sp %s)' % b.e if b.sort == 'Blank' else (b.e if b.sort == 'Str' else None)
            if sa is not None and sb is not None:
                return SV('Str', '(str.++ %s %s)' % (sa, sb))
            if a.sort == 'Str' and b.sort == 'StrOfInt':
                return SV('Str', '(str.++ %s (str.from_int %s))' % (a.e, b.e))
        if isinstance(e.op, ast.Mod) and a.sort == 'Str' and isinstance(e.left, ast.Constant):
            # "..%s.." % value / % (v1, v2): %s of a str is the str itself, of an int its decimal text
            vals = b.meta['items'] if b.sort == 'Tuple' else [b]
            import re as _re
            toks = _re.split(r'(%s|%d|%%)', e.left.value)
            out, vi = [], 0
            for t in toks:
                if t in ('%s', '%d'):
                    if vi >= len(vals):
                        raise OutOfSubset('format string arity', e)
                    v = vals[vi]
                    vi += 1
                    if v.sort == 'Str' and t == '%s':
                        out.append(v.e)
                    elif v.sort in ('Int', 'StrOfInt'):
                        out.append('(str.from_int %s)' % v.e)
                    else:
                        raise OutOfSubset('%s of %s' % (t, v.sort), e)
                elif t == '%%':
                    out.append(smt_str('%'))
                elif t:
                    if '%' in t:
                        raise OutOfSubset('format directive', e)
                    out.append(smt_str(t))
            if vi != len(vals):
                raise OutOfSubset('format string arity', e)
            if not out:
                out = ['""']
            return SV('Str', out[0] if len(out) == 1 else '(str.++ %s)' % ' '.join(out))
        return None

    def truthy(self, ex, v):
        if v.sort == 'Str':
            return NOT(EQ(v.e, '""'))
        return None

    def equal(self, ex, e, op, a, b, st):
        if a.sort == 'PSL' and b.sort == 'PyList' and not b.meta['items']:
            return '((_ is psnil) %s)' % a.e
        if a.sort == 'PXL' and b.sort == 'PyList' and not b.meta['items']:
            return '((_ is pxnil) %s)' % a.e
        return None

    def ev_JoinedStr(self, ex, e, st):
        """f-string of constant text and {expr} parts whose values are strings or ints (no conversion other than !s, no format spec)"""
        outs = [(st, [])]
        for part in e.values:
            nxt = []
            for st2, acc in outs:
                if isinstance(acc, Exc):
                    nxt.append((st2, acc))
                elif isinstance(part, ast.Constant):
                    nxt.append((st2, acc + [smt_str(part.value)]))
                elif isinstance(part, ast.FormattedValue) and part.conversion in (-1, 115) and part.format_spec is None:
                    # (!s on a str or an int is what plain formatting does)
                    for st3, v in ex.eval(part.value, st2):
                        if isinstance(v, Exc):
                            nxt.append((st3, v))
                        elif v.sort == 'Str':
                            nxt.append((st3, acc + [v.e]))
                        elif v.sort in ('Int', 'StrOfInt'):
                            nxt.append((st3, acc + ['(str.from_int %s)' % v.e]))
                        else:
                            raise OutOfSubset('f-string part of sort %s' % v.sort, e)
                else:
                    raise OutOfSubset('f-string conversion / format spec', e)
            outs = nxt
        return [(s2, a if isinstance(a, Exc) else SV('Str', a[0] if len(a) == 1 else ('(str.++ %s)' % ' '.join(a) if a else '""')))
                for s2, a in outs]

    # ---- constructors, builtins
    def apply_name(self, ex, e, name, args, st):
        so = [a.sort for a in args]
        if name == 'repr' and so == ['EV']:
            return [(st, SV('Str', '(reprtext %s)' % args[0].e))]
        if name == 'int' and so == ['Str']:
            return [(st, SV('IntOfStr', args[0].e))]
        if name == 'str' and so == ['IntOfStr']:
            return [(st, SV('Str', '(decint %s)' % args[0].e))]
        if name == 'str' and so == ['Int']:
            return [(st, SV('StrOfInt', args[0].e))]
        if name == 'len' and so == ['Names']:
            return [(st, SV('Int', '(seq.len %s)' % args[0].e))]
        if name == 'YPCodeYieldFalse' and not args:
            return [(st, SV('PS', 'PYieldF'))]
        if name == 'YPCodeExpr' and so == ['Bool']:
            return [(st, SV('PX', '(XExpr (EVBool %s))' % args[0].e))]
        if name == 'YPCodeIf' and len(args) in (2, 3) and args[0].sort == 'PX':
            lists = []
            for a in args[1:]:
                if a.sort == 'PyList' and all(i.sort == 'PS' for i in a.meta['items']):
                    t = 'psnil'
                    for i in reversed(a.meta['items']):
                        t = '(pscons %s %s)' % (i.e, t)
                    lists.append(t)
                elif a.sort == 'PSL':
                    lists.append(a.e)
                else:
                    return None
            if len(lists) == 1:
                lists.append('psnil')       # default false_code=[]
            return [(st, SV('PS', '(PIf %s %s %s)' % (args[0].e, lists[0], lists[1])))]
        return None

    def coerce(self, ex, a, want, st):
        if want == 'PSL' and a.sort == 'PyList' and all(i.sort == 'PS' for i in a.meta['items']):
            t = 'psnil'
            for i in reversed(a.meta['items']):
                t = '(pscons %s %s)' % (i.e, t)
            return SV('PSL', t)
        if want == 'Any':
            return a
        return None

    # ---- methods
    def lift(self, ex, st, what):
        """the defining equations of rlist / joinc, stated as an obligation where a comprehension + join is read as that function"""
        if what == 'rlist':
            h, t = ex.fresh('PS', 'lift_h'), ex.fresh('PSL', 'lift_t')
            a = self.st3(st)
            ex.oblige(st.fork().tag('lift'), 'join.lift.rlist', AND(
                EQ('(rlist psnil %s)' % a, '""'),
                EQ('(rlist (pscons %s psnil) %s)' % (h, a), '(rstmt %s %s)' % (h, a)),
                '(=> ((_ is pscons) %s) (= (rlist (pscons %s %s) %s) (str.++ (rstmt %s %s) %s (rlist %s %s))))' % (t, h, t, a, h, a, NL, t, a)), 'post')
        else:
            h, t = ex.fresh('PX', 'lift_h'), ex.fresh('PXL', 'lift_t')
            ex.oblige(st.fork().tag('lift'), 'join.lift.joinc', AND(
                EQ('(joinc pxnil)', '""'), EQ('(joinc (pxcons %s pxnil))' % h, '(rexpr %s)' % h),
                '(=> ((_ is pxcons) %s) (= (joinc (pxcons %s %s)) (str.++ (rexpr %s) "," (joinc %s))))' % (t, h, t, h, t)), 'post')

    def join_lines(self, ex, st, items, e):
        """ "\\n".join of a list whose items are strings or the renderings of a (non-empty) statement list """
        parts = []
        for it in items:
            if it.sort == 'Str':
                parts.append(it.e)
            elif it.sort == 'StrMap' and it.meta['kind'] == 'stmts':
                ex.oblige(st, 'safety.join.statement_list_nonempty', '((_ is pscons) %s)' % it.e, 'safety')
                self.lift(ex, st, 'rlist')
                parts.append('(rlist %s %s)' % (it.e, it.meta['at']))
            else:
                raise OutOfSubset('join over %s' % it.sort, e)
        if not parts:
            return '""'
        out = [parts[0]]
        for p_ in parts[1:]:
            out += [NL, p_]
        return out[0] if len(out) == 1 else '(str.++ %s)' % ' '.join(out)

    def apply_method(self, ex, e, base, meth, args, st):
        if base.sort in ('PS', 'PX', 'PF') and meth == 'generate' and len(args) == 1 and args[0].sort == 'GSelf':
            f = {'PS': 'rstmt', 'PX': 'rexpr', 'PF': 'rfunc'}[base.sort]
            return [(st, SV('Str', '(%s %s)' % (f, base.e) if base.sort == 'PX' else '(%s %s %s)' % (f, base.e, self.st3(st))))]
        if base.sort == 'GSelf':
            if meth == 'lines':
                starred = [a for a in e.args if isinstance(a, ast.Starred)]
                if not starred:
                    return [(st, SV('Str', self.join_lines(ex, st, args, e)))]
            if meth == 'nl' and not args:
                return [(st, SV('Str', NL))]
            cls = ex.qualname.split('.')[0]
            cname = '%s.%s.%s' % (ex.modname, 'YPPythonCodeGenerator', meth)
            if cname in ex.reg:
                return ex.apply_contract(e, ex.reg[cname], [base] + args, st)
            r = ex.try_inline(e, 'YPPythonCodeGenerator.' + meth, [base] + args, st)
            if r is not None:
                return r
            raise OutOfSubset('no contract for %s' % cname, e)
        if base.sort == 'Str' and meth == 'join' and len(args) == 1 and base.e == smt_str(','):
            a = args[0]
            if a.sort == 'StrMap' and a.meta['kind'] == 'exprs':
                self.lift(ex, st, 'joinc')
                return [(st, SV('Str', '(joinc %s)' % a.e))]
            if a.sort == 'Names':
                return [(st, SV('Str', '(joinnames %s (seq.len %s))' % (a.e, a.e)))]
        if base.sort == 'PyList' and meth in ('append', 'extend') and len(args) == 1 and isinstance(e.func.value, ast.Name):
            items = list(base.meta['items'])
            if meth == 'append':
                items.append(args[0])
            elif args[0].sort == 'StrMap':
                items.append(args[0])
            elif args[0].sort == 'PyList':
                items += args[0].meta['items']
            else:
                raise OutOfSubset('extend with %s' % args[0].sort, e)
            st.env[e.func.value.id] = SV('PyList', None, {'items': items})
            return [(st, NONE)]
        return None

    def call_name_ast(self, ex, e, st):
        # self.lines(*parts): parts is a list of strings / the renderings of a statement list / of the functions of a program
        f = e.func
        if isinstance(f, ast.Attribute) and f.attr == 'lines' and ast.unparse(f.value) == 'self' and len(e.args) == 1 \
                and isinstance(e.args[0], ast.Starred):
            outs = []
            for st2, v in ex.eval(e.args[0].value, st):
                if isinstance(v, Exc):
                    outs.append((st2, v))
                elif v.sort == 'StrMap' and v.meta['kind'] == 'stmts':
                    self.lift(ex, st2, 'rlist')
                    outs.append((st2, SV('Str', '(rlist %s %s)' % (v.e, v.meta['at']))))
                elif v.sort == 'StrMap' and v.meta['kind'] == 'funcs':
                    # "\n".join of the elements rfunc(f_j) + "\n": the defining equations of rprog, as an obligation
                    fs, k, a = ex.fresh('(Seq PF)', 'lift_fs'), ex.fresh('Int', 'lift_k'), v.meta['at']
                    ex.oblige(st2.fork().tag('lift'), 'join.lift.rprog', AND(
                        EQ('(rprog %s 0 %s)' % (fs, a), '""'),
                        EQ('(rprog %s 1 %s)' % (fs, a), '(str.++ (rfunc (seq.nth %s 0) %s) %s)' % (fs, a, NL)),
                        '(=> (> %s 1) (= (rprog %s %s %s) (str.++ (rprog %s (- %s 1) %s) %s (rfunc (seq.nth %s (- %s 1)) %s) %s)))'
                        % (k, fs, k, a, fs, k, a, NL, fs, k, a, NL)), 'post')
                    outs.append((st2, SV('Str', '(rprog %s (seq.len %s) %s)' % (v.e, v.e, v.meta['at']))))
                elif v.sort == 'PyList':
                    outs.append((st2, SV('Str', self.join_lines(ex, st2, v.meta['items'], e))))
                else:
                    raise OutOfSubset('lines(*%s)' % v.sort, e)
            return outs
        return None

    def ev_ListComp(self, ex, e, st):
        g = e.generators[0] if len(e.generators) == 1 else None
        if g is None or g.ifs or not isinstance(g.target, ast.Name):
            return None
        v = g.target.id
        src = ast.unparse(e.elt)
        outs = []
        for st2, lst in ex.eval(g.iter, st):
            if isinstance(lst, Exc):
                outs.append((st2, lst))
            elif src == '%s.generate(self)' % v and lst.sort == 'PSL':
                outs.append((st2, SV('StrMap', lst.e, {'kind': 'stmts', 'at': self.st3(st2)})))
            elif src == '%s.generate(self)' % v and lst.sort == 'PXL':
                outs.append((st2, SV('StrMap', lst.e, {'kind': 'exprs'})))
            elif src == '%s.generate(self) + self.nl()' % v and lst.sort == 'PFS':
                outs.append((st2, SV('StrMap', lst.e, {'kind': 'funcs', 'at': self.st3(st2)})))
            else:
                raise OutOfSubset('list comprehension shape', e)
        return outs
