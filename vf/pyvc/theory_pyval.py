"""Theory plug-in for the to_python family of engine.py: Python result values as the datatype PV (spec/pyval.smt2)."""
import ast

from .core import SV, OutOfSubset, AND, NOT, EQ
from .theory import Theory


class PyvalTheory(Theory):
    COMPS = []

    def coerce(self, ex, a, want, st):
        if want != 'PV':
            return None
        if a.sort == 'PV':
            return a
        if a.sort == 'None':
            return SV('PV', 'PNone')
        if a.sort == 'Str':
            return SV('PV', '(PStr %s)' % a.e)
        if a.sort == 'PyList' and all(i.sort == 'PV' for i in a.meta['items']):
            out = 'pvnil'
            for i in reversed(a.meta['items']):
                out = '(pvcons %s %s)' % (i.e, out)
            return SV('PV', '(PList %s)' % out)
        if a.sort == 'Tuple' and len(a.meta['items']) == 2 and a.meta['items'][0].sort == 'Str' and a.meta['items'][1].sort == 'PVL':
            return SV('PV', '(PTuple %s %s)' % (a.meta['items'][0].e, a.meta['items'][1].e))
        if a.sort == 'Term':
            # a non-IUnifiable Python value is returned as it is
            ex.oblige(st, 'safety.returned_term_is_constant', '((_ is TConst) %s)' % a.e, 'safety')
            return SV('PV', '(PConst (cval %s))' % a.e)
        return None

    def binop(self, ex, e, a, b, st):
        if isinstance(e.op, ast.Add) and a.sort == 'PyList' and all(i.sort == 'PV' for i in a.meta['items']) and b.sort == 'PV':
            # list + <python value>: TypeError unless the value is a list
            ex.oblige(st, 'safety.list_concatenation_with_list', '((_ is PList) %s)' % b.e, 'safety')
            out = '(pitems %s)' % b.e
            for i in reversed(a.meta['items']):
                out = '(pvcons %s %s)' % (i.e, out)
            return SV('PV', '(PList %s)' % out)
        return None

    def mk_ret(self, ex, sort, e, st):
        if sort in ('PV', 'PVL'):
            return SV(sort, e)
        return None
