"""Base class of theory plug-ins: every hook declines (returns None) by default."""


class Theory:
    COMPS = []
    NO_TERM_COMPS = False

    def accept_varargs(self, ex):
        return False

    def accept_keywords(self, ex, e):
        return False

    def on_entry(self, ex, st):
        pass

    def on_raise(self, ex, st, exc):
        pass

    def env_step(self, ex, st):
        pass

    def loop_havoc(self, ex, st, n):
        pass

    def gen_exit(self, ex, st, how):
        from .core import OutOfSubset
        raise OutOfSubset('generator kind %s' % ex.c.kind)

    def do_yield(self, ex, y, st, k):
        from .core import OutOfSubset
        raise OutOfSubset('yield in a %s' % ex.c.kind, y)

    def do_yield_from(self, ex, y, st, k):
        from .core import OutOfSubset
        raise OutOfSubset('yield from', y)

    def st_For(self, ex, s, v, st, k):
        return False

    def __getattr__(self, name):
        # any other hook: decline
        if name.startswith('_'):
            raise AttributeError(name)
        return lambda *a, **kw: None
