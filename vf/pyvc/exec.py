"""pyvc symbolic executor: Python AST -> verification conditions (DESIGN 2.1-2.4).

Statements are executed in continuation-passing style (needed for `yield`, which forks into the
three continuations resume / close / throw); expressions return lists of outcomes.
Every obligation is (path condition => goal); it is discharged by the solver portfolio.
"""
import ast
import re

from .core import (SV, NONE, TRUE, FALSE, State, Obligation, OutOfSubset, AND, OR, NOT, IMP, EQ, ITE,
                   smt_str, smt_int, strip_doc, is_generator, walk_own)

EXC_PARENTS = {
    'BaseException': None, 'Exception': 'BaseException', 'GeneratorExit': 'BaseException',
    'StopIteration': 'Exception', 'RuntimeError': 'Exception', 'RecursionError': 'RuntimeError',
    'LookupError': 'Exception', 'KeyError': 'LookupError', 'IndexError': 'LookupError',
    'AttributeError': 'Exception', 'TypeError': 'Exception', 'UnboundLocalError': 'Exception',
    'YPException': 'Exception', 'CompilerError': 'Exception', 'Thrown': 'Exception',
    'UserException': 'Exception',
}


def exc_is(cls, handler):
    while cls is not None:
        if cls == handler:
            return True
        cls = EXC_PARENTS.get(cls)
    return False


class Exc:
    def __init__(self, cls, val=None):
        self.cls = cls
        self.val = val

    def __repr__(self):
        return 'Exc(%s)' % self.cls


class Konts:
    __slots__ = ('normal', 'ret', 'brk', 'cont', 'exc')

    def __init__(self, normal, ret, brk, cont, exc):
        self.normal, self.ret, self.brk, self.cont, self.exc = normal, ret, brk, cont, exc

    def with_(self, **kw):
        k = Konts(self.normal, self.ret, self.brk, self.cont, self.exc)
        for a, v in kw.items():
            setattr(k, a, v)
        return k


def n_is_store(mods):
    return 'store' in mods


_FUNPOST = re.compile(r'^\(= \{(\w+)\} (.*)\)$', re.S)
_PH = re.compile(r'\{([A-Za-z_][A-Za-z0-9_.]*!?)\}')


class Contract:
    """Sidecar contract of one function (see contracts/*.py)."""

    def __init__(self, name, kind, params, ret=None, requires=(), ensures=(), spec=None, value=None,
                 loops=None, modifies=(), maps=None, raises=(), notes='', ghost=None, frame=None,
                 yields=None, answers=None, exit=None, effect=None, props=()):
        self.name = name
        self.kind = kind            # 'pure' | 'fn' | 'iterfn' | 'semidet-gen' | 'gen'
        self.params = params        # list of (name, sort)
        self.ret = ret
        self.requires = list(requires)
        self.ensures = list(ensures)
        self.spec = spec            # semidet: SRes expression over params and S0
        self.value = value          # pure: result expression
        self.loops = loops or {}
        self.modifies = list(modifies)
        self.maps = maps            # pure: name of the list-lifted spec function
        self.raises = raises if isinstance(raises, dict) else {r: None for r in raises}
        self.notes = notes
        self.ghost = ghost or {}
        self.frame = frame
        self.yields = yields
        self.answers = answers
        self.exit = exit
        self.effect = effect
        self.props = list(props)


class LoopSpec:
    def __init__(self, inv, modifies=None, on_break=None, decreases=None):
        self.inv = inv if isinstance(inv, (list, tuple)) else [inv]
        self.modifies = modifies
        self.on_break = on_break


class Executor:
    """Executes one function under its contract and collects obligations."""

    COMPS = [('store', 'Store'), ('shadow', '(Array Int Term)'), ('ist', '(Array Int Int)'), ('nexth', 'Int')]

    def __init__(self, modname, qualname, fn, contract, registry, theory=None):
        self.modname = modname
        self.qualname = qualname
        self.fn = fn
        self.c = contract
        self.inlined = set()
        self.used_contracts = set()
        self.reg = registry          # name -> Contract
        self.obls = []
        self.decls = {}              # const name -> sort
        self.counter = 0
        self.loop_ord = {}
        self.yield_ord = {}
        self.dropped = []            # statements dropped by the extraction rules (DESIGN 2.2)
        self.theory = theory
        self.comps = (list(self.COMPS) if not (theory and getattr(theory, 'NO_TERM_COMPS', False)) else []) + \
            (list(theory.COMPS) if theory else [])
        self.paths = 0
        n = 0
        y = 0
        for node in self._source_order(fn):
            if isinstance(node, (ast.For, ast.While)):
                self.loop_ord[id(node)] = n
                n += 1
            if isinstance(node, (ast.Yield, ast.YieldFrom)):
                self.yield_ord[id(node)] = y
                y += 1
        self.is_gen = is_generator(fn)

    @staticmethod
    def _source_order(fn):
        def rec(n):
            yield n
            for c in ast.iter_child_nodes(n):
                if isinstance(c, (ast.FunctionDef, ast.ClassDef, ast.Lambda)):
                    continue
                yield from rec(c)
        for s in fn.body:
            yield from rec(s)

    # ------------------------------------------------------------------ helpers
    def fresh(self, sort, hint='v'):
        self.counter += 1
        name = '%s!%d' % (re.sub(r'[^A-Za-z0-9_]', '_', hint), self.counter)
        self.decls[name] = sort
        return name

    def decl_lines(self):
        return ['(declare-const %s %s)' % (n, s) for n, s in self.decls.items()]

    def oblige(self, st, clause, goal, kind='post'):
        name = '%s.%s.%s[%s]' % (self.modname, self.qualname, clause, '/'.join(st.trace) or '-')
        self.obls.append(Obligation(name, st.pc, goal, kind))

    def fmt(self, tmpl, st, extra=None):
        extra = extra or {}

        def sub(m):
            key = m.group(1)
            if key in extra:
                return extra[key]
            if key == 'S':
                return st.comp['store']
            if key == 'S0':
                return st.entry['store']
            if key.endswith('0') and key[:-1] in st.entry and key not in st.env:
                return st.entry[key[:-1]]
            if key in st.comp:
                return st.comp[key]
            if '.' in key:
                base, attr = key.split('.', 1)
                if base in getattr(self, 'entry_params', {}) and attr in self.entry_params[base].meta:
                    return self.entry_params[base].meta[attr]
                if base in st.env and attr in st.env[base].meta:
                    return st.env[base].meta[attr]
            if key in getattr(self, 'entry_params', {}):
                # a parameter name in a contract always denotes the value at entry (parameters are mutable locals)
                v = self.entry_params[key]
                return v.e if v.e is not None else ''
            if key.endswith('!') and key[:-1] in st.env:
                return st.env[key[:-1]].e
            if key in st.env:
                v = st.env[key]
                if v.sort == 'PyList' and all(i.sort == 'Term' for i in v.meta['items']):
                    out = 'nil'
                    for i in reversed(v.meta['items']):
                        out = '(cons %s %s)' % (i.e, out)
                    return out
                return v.e
            if key in st.ghost:
                return st.ghost[key]
            if re.fullmatch(r'loop\d+_exhausted', key):
                return 'false'
            al = getattr(self, 'local_alias', {})
            root = key.split('.')[0].rstrip('!')
            if root in al and not getattr(self, '_aliasing', False):
                self._aliasing = True
                try:
                    return sub(re.match(r'(.*)', key.replace(root, al[root], 1)))      # same placeholder under the renamed local
                finally:
                    self._aliasing = False
            raise OutOfSubset('contract placeholder {%s} not bound on this path (%s)' % (key, self.qualname))
        return _PH.sub(sub, tmpl)

    def loop_comps(self, body):
        if self.theory:
            m = self.theory.loop_modified_comps(self, body)
            if m is not None:
                return [n for n, _ in self.comps if n in m]
        return None

    def havoc_comp(self, st, names=None):
        for n, sort in self.comps:
            if names is None or n in names:
                old = st.comp[n]
                st.comp[n] = self.fresh(sort, n)
                if n == 'nexth':
                    # the allocation counter only ever grows (new_handle, env_step)
                    st.assume('(>= %s %s)' % (st.comp[n], old))

    # ------------------------------------------------------------------ entry
    def run(self):
        st = State()
        for n, sort in self.comps:
            st.comp[n] = self.fresh(sort, n + '0')
        st.entry = dict(st.comp)
        if 'nexth' in st.comp:
            st.assume('(>= %s 0)' % st.comp['nexth'])      # handle ids are allocated from 0 upwards
        args = self.fn.args
        names = [a.arg for a in args.args]
        if args.vararg or args.kwonlyargs or args.kwarg:
            if not (self.theory and self.theory.accept_varargs(self)):
                raise OutOfSubset('varargs/kwargs', self.fn)
        pmap = dict(self.c.params)
        cnames = [pn for pn, _ in self.c.params]
        # parameters are matched by POSITION (a renamed parameter keeps its contract); the contract's names denote entry values
        self.entry_params = {}
        extra_defaults = {}
        if len(names) + (1 if args.vararg else 0) > len(cnames) and not args.vararg and all(n in names for n in cnames):
            # NEW trailing parameters with constant defaults: the contract speaks about calls with the contract's parameters, at which
            # the new ones have their defaults - the body is verified with them fixed to these
            extra = names[len(cnames):]
            if names[:len(cnames)] == cnames and len(args.defaults) >= len(extra) \
                    and all(isinstance(d, ast.Constant) and isinstance(d.value, (int, bool, str, type(None))) for d in args.defaults[len(args.defaults) - len(extra):]):
                for n_, d in zip(extra, args.defaults[len(args.defaults) - len(extra):]):
                    extra_defaults[n_] = d
                names = names[:len(cnames)]
                # ... provided nobody in the module passes the new parameters (a recursive call with another value would be
                # assumed to satisfy a contract that was only verified at the default)
                from . import core as _core
                own = self.qualname.split('.')[-1]
                npos = len(cnames) - (1 if cnames and cnames[0] == 'self' else 0)
                for n_ in ast.walk(_core.module(self.modname).tree):
                    if isinstance(n_, ast.Call) and ((isinstance(n_.func, ast.Name) and n_.func.id == own)
                                                     or (isinstance(n_.func, ast.Attribute) and n_.func.attr == own)):
                        if len(n_.args) > npos or any(k.arg in extra_defaults or k.arg is None for k in n_.keywords) \
                                or any(isinstance(a_, ast.Starred) for a_ in n_.args):
                            raise OutOfSubset('the contract of %s has %d parameters, the function %d (and the new one is passed at line %d)'
                                              % (self.qualname, len(cnames), len(args.args), n_.lineno))
        if len(names) + (1 if args.vararg else 0) != len(cnames) and not all(n in pmap for n in names):
            raise OutOfSubset('the contract of %s has %d parameters, the function %d' % (self.qualname, len(cnames), len(names)))
        for n_, d in extra_defaults.items():
            for st_, v_ in self.eval(d, st):
                st.env[n_] = v_
        for i, n in enumerate(names):
            cn = n if n in pmap else (cnames[i] if i < len(cnames) and cnames[i] not in names else None)
            if cn is None:
                raise OutOfSubset('no sort for parameter %s in the contract of %s' % (n, self.qualname))
            st.env[n] = self.mk_param(st, n, pmap[cn])
            self.entry_params[cn] = st.env[n]
            self.entry_params[n] = st.env[n]
            # callers that omit an optional argument are verified against the default the CONTRACT names: the def must have the same
            if pmap[cn].startswith('Opt:'):
                d = pmap[cn].split(':', 2)
                want = d[2] if len(d) > 2 else 'None'
                k_ = i - (len(args.args) - len(args.defaults))
                have = ast.unparse(args.defaults[k_]) if 0 <= k_ < len(args.defaults) else '<no default>'
                self.oblige(st.fork().tag(n), 'signature.default_is_the_contracts', 'true' if have == want else 'false', 'pre')
        if args.vararg:
            n = args.vararg.arg
            cn = n if n in pmap else cnames[-1]
            st.env[n] = self.mk_param(st, n, pmap[cn])
            self.entry_params[cn] = st.env[n]
            self.entry_params[n] = st.env[n]
        for r in self.c.requires:
            st.assume(self.fmt(r, st))
        if self.theory:
            self.theory.on_entry(self, st)
        self.entry_state = st
        k = Konts(normal=self.at_end, ret=self.at_return, brk=self._bad('break outside loop'),
                  cont=self._bad('continue outside loop'), exc=self.at_exception)
        body = strip_doc(self.fn.body)
        self.exec_block(body, st.fork(), k)
        return self.obls

    def mk_param(self, st, n, sort):
        sub = None
        if sort.startswith('Opt:') or sort.startswith('Star:'):
            sort = sort.split(':')[1]
        if ':' in sort:
            sort, sub = sort.split(':', 1)
        if sort == 'Term':
            e = self.fresh('Term', n)
            if sub:
                st.assume('((_ is %s) %s)' % (sub, e))
            return SV('Term', e)
        if sort in ('Int', 'Bool', 'TList'):
            return SV(sort, self.fresh(sort, n))
        if sort == 'Str':
            return SV('Str', self.fresh('String', n))
        if sort == 'Iter':
            return SV('Iter', self.fresh('Int', n))
        if self.theory:
            v = self.theory.mk_param(self, st, n, sort, sub)
            if v is not None:
                return v
        raise OutOfSubset('parameter sort %s' % sort)

    def _bad(self, msg):
        def f(st, *a):
            raise OutOfSubset(msg)
        return f

    # ------------------------------------------------------------------ function exits
    def at_end(self, st):
        self.at_return(st, NONE)

    def at_return(self, st, val):
        self.paths += 1
        c = self.c
        if st.flags.get('caught_user_exception'):
            self.oblige(st, 'exceptions.user_exception_reaches_the_consumer', 'false', 'post')
        if self.is_gen:
            return self.gen_exit(st, 'end')
        if c.kind in ('iterfn', 'iterfn-fx'):
            if val.sort != 'Iter':
                self.oblige(st, 'returns_iterator', 'false', 'safety')
                return
            self.oblige(st, 'ensures.res', EQ('(h_res %s)' % val.e, self.fmt(c.spec, st)))
            self.oblige(st, 'ensures.created_now', AND(EQ('(h_cs %s)' % val.e, st.comp['store']),
                                                      EQ(st.comp['store'], st.entry['store']),
                                                      EQ('(select %s %s)' % (st.comp['ist'], val.e), 'FRESH')))
            self.extra_ensures(st, val)
            return
        if c.kind == 'handlefn':
            if val.sort != 'Iter':
                self.oblige(st, 'returns_iterator', 'false', 'safety')
                return
            self.oblige(st, 'ensures.fresh', EQ('(select %s %s)' % (st.comp['ist'], val.e), 'FRESH'))
            self.extra_ensures(st, val)
            return
        if c.kind in ('pure', 'fn'):
            if c.ret and val.sort != c.ret and self.theory and self.theory.coerce(self, val, c.ret, st) is not None:
                val = self.theory.coerce(self, val, c.ret, st)
            if c.ret and c.ret != 'None' and val.sort == 'None' and c.ret not in ('Any',):
                self.oblige(st, 'returns_value', 'false', 'safety')
                return
            if c.value is not None:
                self.oblige(st, 'ensures.value', self.eq_sv(val, c.ret, self.fmt(c.value, st)))
            if c.kind == 'pure':
                self.oblige(st, 'ensures.pure', AND(*[EQ(st.comp[n], st.entry[n]) for n, _ in self.comps
                                                       if n not in ('shadow', 'nexth', 'ist')]))
            self.extra_ensures(st, val)
            return
        raise OutOfSubset('contract kind %s' % c.kind)

    def eq_sv(self, val, sort, expr):
        if val.sort == 'None':
            return 'false'
        return EQ(val.e, expr)

    def extra_ensures(self, st, val):
        ex = {'result': val.e if val is not None and val.e is not None else 'none'}
        for mk, mv in (val.meta.items() if val is not None else ()):
            # components of a structured result: {result.head}, {result.body}, ...
            if isinstance(mv, SV) and mv.e is not None:
                ex['result.' + mk] = mv.e
            elif isinstance(mv, str):
                ex['result.' + mk] = mv
        for i, e in enumerate(self.c.ensures):
            self.oblige(st, 'ensures%d' % i, self.fmt(e, st, ex))

    def at_exception(self, st, exc):
        self.paths += 1
        if self.is_gen and exc.cls in ('GeneratorExit', 'Thrown'):
            return self.gen_exit(st, 'closed' if exc.cls == 'GeneratorExit' else 'thrown')
        if exc.cls in self.c.raises:
            cond = self.c.raises[exc.cls] if isinstance(self.c.raises, dict) else None
            if cond:
                self.oblige(st.fork().tag('raise:' + exc.cls), 'raises.only_when', self.fmt(cond, st), 'post')
            if self.theory:
                self.theory.on_raise(self, st, exc)
            return
        self.oblige(st.fork().tag('raise:' + exc.cls), 'safety.no_exception', 'false', 'safety')

    def gen_exit(self, st, how):
        c = self.c
        if c.kind == 'semidet-gen':
            res = self.fmt(c.spec, st)
            if st.yields == 0:
                if how == 'end':
                    self.oblige(st, 'exit.fail_iff_spec', '((_ is SFail) %s)' % res)
                    self.oblige(st, 'exit.store_unchanged', EQ(st.comp['store'], st.entry['store']))
                else:
                    raise OutOfSubset('generator closed before its first yield')
            else:
                r = st.ghost['resume_store']
                self.oblige(st, 'exit.finalised',
                            EQ(st.comp['store'], '(unbindfp %s %s (st %s))' % (r, st.entry['store'], res)))
            return
        if self.theory:
            return self.theory.gen_exit(self, st, how)
        raise OutOfSubset('generator kind %s' % c.kind)

    # ------------------------------------------------------------------ statements
    def exec_block(self, stmts, st, k):
        if not stmts:
            return k.normal(st)
        rest = stmts[1:]
        self.exec_stmt(stmts[0], st, k.with_(normal=lambda st2: self.exec_block(rest, st2, k)))

    def exec_stmt(self, s, st, k):
        m = getattr(self, 'st_' + type(s).__name__, None)
        if m is None:
            raise OutOfSubset('statement %s' % type(s).__name__, s)
        return m(s, st, k)

    def st_Pass(self, s, st, k):
        k.normal(st)

    def st_Break(self, s, st, k):
        k.brk(st)

    def st_Continue(self, s, st, k):
        k.cont(st)

    def st_Return(self, s, st, k):
        if s.value is None:
            return k.ret(st, NONE)
        for st2, v in self.eval(s.value, st):
            if isinstance(v, Exc):
                k.exc(st2, v)
            else:
                k.ret(st2, v)

    def st_Expr(self, s, st, k):
        if isinstance(s.value, ast.Yield):
            return self.do_yield(s.value, st, k, None)
        if isinstance(s.value, ast.YieldFrom):
            return self.do_yield_from(s.value, st, k)
        if isinstance(s.value, ast.Constant):
            return k.normal(st)
        if self.is_dropped_call(s.value):
            self.dropped.append(ast.unparse(s.value)[:60])
            if self.modname == 'engine':
                # the value and effect of a logging call are dropped, its exceptional edge is not: any call can raise (at the least
                # RecursionError near the depth limit), and in the engine that must not leave a binding behind
                k.exc(st.fork().tag('raise-in-logging-call'), Exc('RecursionError'))
            return k.normal(st)
        for st2, v in self.eval(s.value, st):
            if isinstance(v, Exc):
                k.exc(st2, v)
            else:
                k.normal(st2)

    def is_dropped_call(self, e):
        # DESIGN 2.2: self._debug(...) and logger calls are dropped from the functional translation
        if isinstance(e, ast.Call) and isinstance(e.func, ast.Attribute):
            if e.func.attr == '_debug' and isinstance(e.func.value, ast.Name) and e.func.value.id == 'self':
                return True
            if isinstance(e.func.value, ast.Name) and e.func.value.id == 'logger':
                return True
        return False

    def st_Assign(self, s, st, k):
        if len(s.targets) != 1:
            raise OutOfSubset('multiple assignment targets', s)
        tgt = s.targets[0]
        for st2, v in self.eval(s.value, st):
            if isinstance(v, Exc):
                k.exc(st2, v)
                continue
            if self.theory:
                v2 = self.theory.adjust_assign(self, tgt, v, st2)
                v = v2 if v2 is not None else v
            for st3, r in self.assign(tgt, v, st2):
                if isinstance(r, Exc):
                    k.exc(st3, r)
                else:
                    k.normal(st3)

    def st_AugAssign(self, s, st, k):
        cur = ast.BinOp(left=self._load(s.target), op=s.op, right=s.value)
        ast.copy_location(cur, s)
        for st2, v in self.eval(cur, st):
            if isinstance(v, Exc):
                k.exc(st2, v)
                continue
            for st3, r in self.assign(s.target, v, st2):
                if isinstance(r, Exc):
                    k.exc(st3, r)
                else:
                    k.normal(st3)

    @staticmethod
    def _load(t):
        import copy
        t2 = copy.deepcopy(t)
        for n in ast.walk(t2):
            if hasattr(n, 'ctx'):
                n.ctx = ast.Load()
        return t2

    def assign(self, tgt, v, st):
        if isinstance(tgt, ast.Name):
            st.env[tgt.id] = v
            return [(st, None)]
        if isinstance(tgt, ast.Subscript):
            outs = []
            for st2, base in self.eval(tgt.value, st):
                if isinstance(base, Exc):
                    outs.append((st2, base))
                    continue
                for st3, idx in self.eval(tgt.slice, st2):
                    if isinstance(idx, Exc):
                        outs.append((st3, idx))
                        continue
                    outs.extend(self.store_subscript(tgt, base, idx, v, st3))
            return outs
        if isinstance(tgt, ast.Attribute):
            outs = []
            for st2, base in self.eval(tgt.value, st):
                if isinstance(base, Exc):
                    outs.append((st2, base))
                    continue
                outs.extend(self.attr_write(base, tgt.attr, v, st2, tgt))
            return outs
        if isinstance(tgt, ast.Tuple) and v.sort == 'Tuple' and len(tgt.elts) == len(v.meta['items']):
            outs = [(st, None)]
            for t, item in zip(tgt.elts, v.meta['items']):
                nxt = []
                for st2, r in outs:
                    if isinstance(r, Exc):
                        nxt.append((st2, r))
                    else:
                        nxt.extend(self.assign(t, item, st2))
                outs = nxt
            return outs
        raise OutOfSubset('assignment target %s' % type(tgt).__name__, tgt)

    def store_subscript(self, node, base, idx, v, st):
        if base.sort == 'IterArr' and isinstance(node.value, ast.Name):
            if idx.sort != 'Int':
                raise OutOfSubset('index sort', node)
            self.oblige(st, 'safety.index', AND('(<= 0 %s)' % idx.e, '(< %s %s)' % (idx.e, base.meta['len'])), 'safety')
            if v.sort == 'Iter':
                ve = v.e
            elif v.sort == 'None':
                ve = '(- 1)'
            else:
                raise OutOfSubset('storing %s into an iterator list' % v.sort, node)
            # name the updated array: quantifier patterns over a constant match better than over store terms
            a2 = self.fresh('(Array Int Int)', node.value.id)
            st.assume(EQ(a2, '(store %s %s %s)' % (base.e, idx.e, ve)))
            st.env[node.value.id] = SV('IterArr', a2, base.meta)
            return [(st, None)]
        if self.theory:
            r = self.theory.store_subscript(self, node, base, idx, v, st)
            if r is not None:
                return r
        raise OutOfSubset('subscript store on %s' % base.sort, node)

    def st_Delete(self, s, st, k):
        if self.theory:
            r = self.theory.st_Delete(self, s, st)
            if r is not None:
                for st2, x in r:
                    if isinstance(x, Exc):
                        k.exc(st2, x)
                    else:
                        k.normal(st2)
                return
        raise OutOfSubset('del', s)

    def st_If(self, s, st, k):
        for st2, c in self.eval_cond(s.test, st):
            if isinstance(c, Exc):
                k.exc(st2, c)
                continue
            ordn = self.branch_id(s)
            if c == 'true':
                self.exec_block(s.body, st2.tag('%sT' % ordn), k)
            elif c == 'false':
                self.exec_block(s.orelse, st2.tag('%sF' % ordn), k)
            else:
                a = st2.fork().assume(c).tag('%sT' % ordn)
                b = st2.assume(NOT(c)).tag('%sF' % ordn)
                self.exec_block(s.body, a, k)
                self.exec_block(s.orelse, b, k)

    def branch_id(self, s):
        return 'L%d' % s.lineno if False else 'if%d' % self._ord(s)

    def _ord(self, s):
        if not hasattr(self, '_if_ord'):
            self._if_ord = {}
            n = 0
            for node in self._source_order(self.fn):
                if isinstance(node, (ast.If, ast.IfExp)):
                    self._if_ord[id(node)] = n
                    n += 1
        return self._if_ord.get(id(s), 0)

    def st_Raise(self, s, st, k):
        if s.exc is None:
            raise OutOfSubset('bare raise', s)
        e = s.exc
        name = None
        if isinstance(e, ast.Name):
            name = e.id
        elif isinstance(e, ast.Call) and isinstance(e.func, ast.Name):
            name = e.func.id
        elif isinstance(e, ast.Call) and isinstance(e.func, ast.Attribute):
            name = e.func.attr
        if name is None or name not in EXC_PARENTS:
            raise OutOfSubset('raise of %s' % ast.unparse(e)[:40], s)
        k.exc(st, Exc(name))

    def st_Try(self, s, st, k):
        final = s.finalbody
        if s.orelse:
            raise OutOfSubset('try/else', s)

        def run_final(st2, then):
            if not final:
                return then(st2)
            self.exec_block(final, st2, k.with_(normal=then))

        def handler_for(exc):
            for h in s.handlers:
                if h.type is None:
                    return h
                names = [h.type.id] if isinstance(h.type, ast.Name) else \
                    [e.id for e in h.type.elts] if isinstance(h.type, ast.Tuple) else None
                if names is None:
                    raise OutOfSubset('except clause', h)
                for nme in names:
                    if nme not in EXC_PARENTS:
                        raise OutOfSubset('exception class %s' % nme, h)
                    if exc_is(exc.cls, nme):
                        return h
            return None

        # continuations used inside handlers and after the body: everything passes through finally
        k_after = Konts(
            normal=lambda st2: run_final(st2, k.normal),
            ret=lambda st2, v: run_final(st2, lambda st3: k.ret(st3, v)),
            brk=lambda st2: run_final(st2, k.brk),
            cont=lambda st2: run_final(st2, k.cont),
            exc=lambda st2, e: run_final(st2, lambda st3: k.exc(st3, e)))

        def on_exc(st2, e):
            h = handler_for(e)
            if h is None:
                return k_after.exc(st2, e)
            st2 = st2.tag('except:%s' % e.cls)
            if e.cls == 'UserException':
                # an exception of user code (a Python predicate, a projection function) caught by a handler broad enough for it:
                # unless the handler leaves by raising, the consumer never sees it (obligation at the function's normal exits)
                st2.flags = dict(st2.flags)
                st2.flags['caught_user_exception'] = getattr(h, 'lineno', 0)
            if h.name:
                st2.env[h.name] = SV('Exc', e.cls)
            self.exec_block(h.body, st2, k_after)

        k_body = k_after.with_(exc=on_exc)
        catches_rec = self.modname == 'engine' and any(
            h.type is None or any(exc_is('RecursionError', nm) for nm in (
                [h.type.id] if isinstance(h.type, ast.Name) else [e_.id for e_ in getattr(h.type, 'elts', []) if isinstance(e_, ast.Name)]))
            for h in s.handlers)
        if catches_rec and not st.flags.get('rec_edges'):
            # a handler for RecursionError (or a broader class) is only meaningful because every call can raise it near the depth
            # limit: inside such a try the calls get that exceptional edge
            st = st.fork()
            st.flags = dict(st.flags)
            st.flags['rec_edges'] = id(s)
            leave = lambda st2: (st2.flags.pop('rec_edges', None) if st2.flags.get('rec_edges') == id(s) else None)      # noqa: E731

            def wrap(f):
                def g(st2, *a):
                    st2.flags = dict(st2.flags)
                    leave(st2)
                    return f(st2, *a)
                return g
            k_body = Konts(normal=wrap(k_body.normal), ret=wrap(k_body.ret), brk=wrap(k_body.brk), cont=wrap(k_body.cont), exc=wrap(k_body.exc))
        self.exec_block(s.body, st, k_body)

    # ------------------------------------------------------------------ loops
    def loop_spec(self, s):
        if id(s) not in self.loop_ord:
            return -1, None         # a loop of an inlined helper: no invariant (constant ranges are unrolled)
        n = self.loop_ord[id(s)]
        return n, self.c.loops.get(n)

    # ------------------------------------------------------------------ inlining of helpers without a contract
    def try_inline(self, e, qualname, args, st):
        """A call of a function of the module that has no sidecar contract (typically a private helper extracted by a refactoring):
        its body is executed in place of the call - the caller's obligations are then decided about caller + helper together.
        Only for plain functions: no generator, no recursion, positional parameters (constant defaults), nesting <= 3.
        Returns the outcomes [(state, value | Exc)] or None when the helper is not inlinable."""
        from . import core as _core
        fdef = _core.module(self.modname).functions.get(qualname)
        if fdef is None or getattr(self, '_inline_depth', 0) >= 3:
            return None
        if fdef.decorator_list or fdef.args.vararg or fdef.args.kwarg or fdef.args.kwonlyargs or (isinstance(e, ast.Call) and e.keywords):
            return None
        own = qualname.split('.')[-1]
        for n in ast.walk(fdef):
            if isinstance(n, (ast.Yield, ast.YieldFrom, ast.Lambda, ast.Global, ast.Nonlocal, ast.AsyncFunctionDef)):
                return None
            if isinstance(n, ast.FunctionDef) and n is not fdef:
                return None
            if isinstance(n, ast.Call) and ((isinstance(n.func, ast.Name) and n.func.id == own)
                                            or (isinstance(n.func, ast.Attribute) and n.func.attr == own)):
                return None         # recursive
        params = [a.arg for a in fdef.args.args]
        defaults = fdef.args.defaults
        vals = list(args)
        if len(vals) > len(params):
            return None
        for i in range(len(vals), len(params)):
            j = i - (len(params) - len(defaults))
            if j < 0 or not isinstance(defaults[j], ast.Constant):
                return None
            d = self.ev_Constant(defaults[j], st)
            vals.append(d[0][1])
        saved_env, saved_fn = st.env, self.fn
        outs = []

        def leave(st2, v):
            st2.env = dict(saved_env)
            outs.append((st2, v))
        body = fdef.body
        if body and isinstance(body[0], ast.Expr) and isinstance(body[0].value, ast.Constant) and isinstance(body[0].value.value, str):
            body = body[1:]
        st_in = st.fork().tag('inline:' + own)
        st_in.env = dict(zip(params, vals))

        def bad(*_a):
            raise OutOfSubset('break/continue outside a loop in an inlined helper', e)
        self._inline_depth = getattr(self, '_inline_depth', 0) + 1
        self.fn = fdef
        try:
            self.exec_block(body, st_in, Konts(normal=lambda s2: leave(s2, NONE), ret=lambda s2, v: leave(s2, v if v is not None else NONE),
                                               brk=bad, cont=bad, exc=lambda s2, x: leave(s2, x)))
        finally:
            self._inline_depth -= 1
            self.fn = saved_fn
        self.inlined.add('%s.%s' % (self.modname, qualname))
        return outs

    def assigned_names(self, stmts):
        out = set()
        for s in stmts:
            for n in ast.walk(s):
                if isinstance(n, ast.Name) and isinstance(n.ctx, (ast.Store, ast.Del)):
                    out.add(n.id)
                elif isinstance(n, (ast.Subscript, ast.Attribute)) and isinstance(n.ctx, (ast.Store, ast.Del)):
                    b = n
                    while isinstance(b, (ast.Subscript, ast.Attribute)):
                        b = b.value
                    if isinstance(b, ast.Name):
                        out.add(b.id)
        return out

    def havoc_locals(self, st, names):
        for n in sorted(names):
            if n in st.env:
                st.env[n] = self.havoc_sv(st, st.env[n], n)

    def havoc_sv(self, st, v, hint):
        if v.sort in ('Int', 'Bool', 'Term', 'TList'):
            return SV(v.sort, self.fresh(v.sort, hint))
        if v.sort == 'Str':
            return SV('Str', self.fresh('String', hint))
        if v.sort == 'Iter':
            return SV('Iter', self.fresh('Int', hint))
        if v.sort == 'IterArr':
            return SV('IterArr', self.fresh('(Array Int Int)', hint), v.meta)
        if v.sort == 'None':
            return v
        if self.theory:
            r = self.theory.havoc_sv(self, st, v, hint)
            if r is not None:
                return r
        raise OutOfSubset('cannot havoc a local of sort %s (%s)' % (v.sort, hint))

    def st_For(self, s, st, k):
        if s.orelse:
            raise OutOfSubset('for/else', s)
        it = s.iter
        if self.loop_spec(s)[1] is None and self._append_loop(s, st, k):
            return
        if isinstance(it, ast.Call) and isinstance(it.func, ast.Name) and it.func.id == 'range':
            return self.for_range(s, st, k)
        if self.theory and self.theory.for_enumerate(self, s, st, k):
            return
        if isinstance(it, ast.Call) and isinstance(it.func, ast.Name) and it.func.id == 'enumerate' and len(it.args) == 1 \
                and not it.keywords and isinstance(it.args[0], (ast.Name, ast.Attribute)) and isinstance(s.target, ast.Tuple) \
                and len(s.target.elts) == 2 and all(isinstance(t, ast.Name) for t in s.target.elts):
            # for i, x in enumerate(xs)  ==  for i in range(len(xs)): x = xs[i]   (xs a name / attribute: no effect in evaluating it;
            # the loop keeps its ordinal, so the invariants of the index form apply)
            i_, x_ = s.target.elts
            s2 = ast.For(target=ast.Name(id=i_.id, ctx=ast.Store()),
                         iter=ast.Call(func=ast.Name(id='range', ctx=ast.Load()),
                                       args=[ast.Call(func=ast.Name(id='len', ctx=ast.Load()), args=[it.args[0]], keywords=[])], keywords=[]),
                         body=[ast.Assign(targets=[ast.Name(id=x_.id, ctx=ast.Store())],
                                          value=ast.Subscript(value=it.args[0], slice=ast.Name(id=i_.id, ctx=ast.Load()), ctx=ast.Load()),
                                          lineno=s.lineno)] + s.body, orelse=[])
            ast.copy_location(s2, s)
            ast.fix_missing_locations(s2)
            self.loop_ord[id(s2)] = self.loop_ord[id(s)]
            return self.for_range(s2, st, k)
        if isinstance(it, ast.Call) and isinstance(it.func, ast.Name) and it.func.id == 'reversed' and len(it.args) == 1 and not it.keywords \
                and isinstance(it.args[0], ast.Call) and isinstance(it.args[0].func, ast.Name) and it.args[0].func.id == 'list' \
                and len(it.args[0].args) == 1 and isinstance(it.args[0].args[0], ast.Call) \
                and isinstance(it.args[0].args[0].func, ast.Name) and it.args[0].args[0].func.id == 'enumerate' \
                and len(it.args[0].args[0].args) == 1 and isinstance(it.args[0].args[0].args[0], (ast.Name, ast.Attribute)) \
                and isinstance(s.target, ast.Tuple) and len(s.target.elts) == 2 and all(isinstance(t, ast.Name) for t in s.target.elts):
            # for i, x in reversed(list(enumerate(xs)))  ==  for i in range(len(xs) - 1, -1, -1): x = xs[i]
            xs = it.args[0].args[0].args[0]
            i_, x_ = s.target.elts
            rng = ast.parse('range(len(%s) - 1, -1, -1)' % ast.unparse(xs), mode='eval').body
            s2 = ast.For(target=ast.Name(id=i_.id, ctx=ast.Store()), iter=rng,
                         body=[ast.Assign(targets=[ast.Name(id=x_.id, ctx=ast.Store())],
                                          value=ast.Subscript(value=xs, slice=ast.Name(id=i_.id, ctx=ast.Load()), ctx=ast.Load()),
                                          lineno=s.lineno)] + s.body, orelse=[])
            ast.copy_location(s2, s)
            ast.fix_missing_locations(s2)
            if id(s) in self.loop_ord:
                self.loop_ord[id(s2)] = self.loop_ord[id(s)]
            return self.for_range(s2, st, k)
        if isinstance(it, ast.Subscript) and isinstance(it.slice, ast.Slice) and it.slice.lower is None and it.slice.step is None \
                and it.slice.upper is not None and isinstance(it.value, ast.Name) and isinstance(s.target, ast.Name) \
                and st.env.get(it.value.id) is not None and st.env[it.value.id].sort == 'IterArr':
            # for x in xs[:n]  ==  for i in range(<n clamped as slicing does>): x = xs[i]     (xs a local array of iterators; the loop keeps
            # its ordinal, so the invariants of the index form apply)
            xs, n_ = it.value.id, ast.unparse(it.slice.upper)
            rng = ast.parse('range((min(%s, len(%s)) if (%s) >= 0 else max(len(%s) + (%s), 0)))' % (n_, xs, n_, xs, n_), mode='eval').body
            s2 = ast.For(target=ast.Name(id='__i%d' % self.loop_ord.get(id(s), 0), ctx=ast.Store()), iter=rng,
                         body=[ast.Assign(targets=[ast.Name(id=s.target.id, ctx=ast.Store())],
                                          value=ast.Subscript(value=ast.Name(id=xs, ctx=ast.Load()),
                                                              slice=ast.Name(id='__i%d' % self.loop_ord.get(id(s), 0), ctx=ast.Load()), ctx=ast.Load()),
                                          lineno=s.lineno)] + s.body, orelse=[])
            ast.copy_location(s2, s)
            ast.fix_missing_locations(s2)
            if id(s) in self.loop_ord:
                self.loop_ord[id(s2)] = self.loop_ord[id(s)]
            return self.for_range(s2, st, k)
        for st2, v in self.eval(it, st):
            if isinstance(v, Exc):
                k.exc(st2, v)
            elif v.sort == 'PyList':
                self.for_unroll(s, v.meta['items'], st2, k)
            elif v.sort == 'Iter' and not v.meta.get('nondet'):
                self.for_semidet(s, v, st2, k)
            elif self.theory and self.theory.st_For(self, s, v, st2, k):
                pass
            else:
                raise OutOfSubset('for over %s' % v.sort, s)

    def _append_loop(self, s, st, k):
        """xs = [] ... for T in IT: xs.append(E)   with xs still the empty list and no invariant given for the loop: the loop IS the
        comprehension xs = [E for T in IT] (E does not mention xs) - evaluated by the comprehension rules"""
        if not (len(s.body) == 1 and isinstance(s.body[0], ast.Expr) and isinstance(s.body[0].value, ast.Call)):
            return False
        c = s.body[0].value
        if not (isinstance(c.func, ast.Attribute) and c.func.attr == 'append' and isinstance(c.func.value, ast.Name) and len(c.args) == 1
                and not c.keywords):
            return False
        xs = c.func.value.id
        cur = st.env.get(xs)
        empty = cur is not None and ((cur.sort == 'PyList' and not cur.meta.get('items'))
                                     or (isinstance(cur.e, str) and (cur.e in ('cnil', 'nil', 'tanil') or cur.e.startswith('(as seq.empty'))))
        if not empty:
            return False
        if any(isinstance(n, ast.Name) and n.id == xs for n in ast.walk(c.args[0])) or any(isinstance(n, ast.Name) and n.id == xs for n in ast.walk(s.iter)):
            return False
        if any(isinstance(n, (ast.Yield, ast.YieldFrom, ast.NamedExpr)) for n in ast.walk(c.args[0])):
            return False
        comp = ast.ListComp(elt=c.args[0], generators=[ast.comprehension(target=s.target, iter=s.iter, ifs=[], is_async=0)])
        asg = ast.Assign(targets=[ast.Name(id=xs, ctx=ast.Store())], value=comp, lineno=s.lineno)
        ast.copy_location(asg, s)
        ast.fix_missing_locations(asg)
        # (a comprehension's variable is local to it; the loop variable would stay bound after the loop: it is not used afterwards in
        # the supported shape - a later read of it finds no binding and leaves the subset)
        self.exec_block([asg], st, k)
        return True

    def for_unroll(self, s, items, st, k):
        n = self.loop_ord[id(s)]

        def step(i, st2):
            if i >= len(items):
                return k.normal(st2)
            for st3, r in self.assign(s.target, items[i], st2):
                kk = k.with_(normal=lambda st4: step(i + 1, st4),
                             cont=lambda st4: step(i + 1, st4),
                             brk=lambda st4: k.normal(st4))
                self.exec_block(s.body, st3.tag('for%d.%d' % (n, i)), kk)
        step(0, st)

    def for_semidet(self, s, h, st, k):
        """`for x in <semidet iterator>`: exactly 0 or 1 iteration; the iterator is owned by the loop
        (ownership rule (i)): leaving the loop in any way drops and thereby finalises it."""
        n = self.loop_ord[id(s)]

        outer_active = tuple(st.ghost.get('active', ()))

        loop_owns = not isinstance(s.iter, ast.Name)

        def drop(st2):
            if loop_owns:
                self.iter_close(st2, h)
            st2.ghost['active'] = outer_active
            return st2

        for st2, out in self.iter_next(st.tag('for%d' % n), h):
            if isinstance(out, Exc) and out.cls == 'StopIteration':
                k.normal(st2.tag('none'))
                continue
            if isinstance(out, Exc):
                k.exc(st2, out)
                continue
            for st3, r in self.assign(s.target, out, st2.tag('one')):
                st3.ghost['active'] = outer_active + (h.e,)

                def again(st4):
                    for st5, out2 in self.iter_next(st4, h):
                        st5.ghost['active'] = outer_active
                        if isinstance(out2, Exc) and out2.cls == 'StopIteration':
                            k.normal(st5)
                        elif isinstance(out2, Exc):
                            k.exc(st5, out2)
                        else:
                            # a second answer of a semidet iterator: must be infeasible
                            self.oblige(st5, 'semidet.second_answer', 'false', 'safety')
                kk = Konts(normal=again, cont=again,
                           brk=lambda st4: k.normal(drop(st4)),
                           ret=lambda st4, v: k.ret(drop(st4), v),
                           exc=lambda st4, e: k.exc(drop(st4), e))
                self.exec_block(s.body, st3, kk)

    def for_range(self, s, st, k):
        n, spec = self.loop_spec(s)
        if spec is None:
            vals = self.const_range(s.iter.args)
            if vals is not None and isinstance(s.target, ast.Name) and not s.orelse:
                # constant bounds, no invariant given: the loop is its finite unrolling (complete, not a bound)
                return self.for_unrolled(s, st, k, vals)
            raise OutOfSubset('loop %d of %s has no invariant in the sidecar contract' % (n, self.qualname), s)
        a = s.iter.args
        if not isinstance(s.target, ast.Name) or len(a) not in (1, 3):
            raise OutOfSubset('range() form', s)
        step = 1
        if len(a) == 3:
            if isinstance(a[2], ast.UnaryOp) and isinstance(a[2].op, ast.USub) and isinstance(a[2].operand, ast.Constant) and a[2].operand.value == 1:
                step = -1
            elif isinstance(a[2], ast.Constant) and a[2].value == 1:
                step = 1
            else:
                raise OutOfSubset('range() step', s)
        for st1, args in self.eval_args(a[:2] if len(a) == 3 else a, st):
            if isinstance(args, Exc):
                k.exc(st1, args)
                continue
            if len(a) == 1:
                start, count = '0', args[0].e
            else:
                start = args[0].e
                count = '(- %s %s)' % (args[1].e, start) if step == 1 else '(- %s %s)' % (start, args[1].e)
            self._for_range(s, n, spec, SV('Int', count), st1, k, start, step)

    @staticmethod
    def const_range(args):
        vals = []
        for a in args:
            if isinstance(a, ast.Constant) and type(a.value) is int:
                vals.append(a.value)
            elif isinstance(a, ast.UnaryOp) and isinstance(a.op, ast.USub) and isinstance(a.operand, ast.Constant) \
                    and type(a.operand.value) is int:
                vals.append(-a.operand.value)
            else:
                return None
        if not 1 <= len(vals) <= 3 or (len(vals) == 3 and vals[2] == 0):
            return None
        r = list(range(*vals))
        return r if len(r) <= 16 else None

    def for_unrolled(self, s, st, k, values):
        var = s.target.id

        def step(i, st2):
            if i == len(values):
                return k.normal(st2)
            st3 = st2.tag('unroll%d' % i)
            v = values[i]
            st3.env[var] = SV('Int', str(v) if v >= 0 else '(- %d)' % -v)
            self.exec_block(s.body, st3, k.with_(normal=lambda s4: step(i + 1, s4), cont=lambda s4: step(i + 1, s4),
                                                 brk=lambda s4: k.normal(s4)))
        step(0, st)

    def _for_range(self, s, n, spec, bound, st, k, start='0', step=1, elem=None):
        """`{k}` in invariants = number of completed iterations, `{n}` = total number of iterations (if >= 0)"""
        var = s.target.id
        mods = self.assigned_names(s.body) | {var}
        comps = self.loop_comps(s.body)
        st.ghost['loop%d_pre_store' % n] = st.comp.get('store', '')
        for cn, _ in self.comps:
            st.ghost['loop%d_pre_%s' % (n, cn)] = st.comp[cn]

        def ival(kx):
            if start == '0' and step == 1:
                return kx
            return '(%s %s %s)' % ('+' if step == 1 else '-', start, kx)
        ex0 = {'k': '0', 'n': bound.e}
        for j, inv in enumerate(spec.inv):
            self.oblige(st.fork().tag('loop%d.init' % n), 'loop%d.inv%d' % (n, j), self.fmt(inv, st, ex0), 'inv')
        # arbitrary iteration
        sti = st.fork().tag('loop%d.iter' % n)
        self.havoc_comp(sti, comps)
        self.havoc_locals(sti, mods)
        kk = self.fresh('Int', 'k')
        ex = {'k': kk, 'n': bound.e}
        sti.assume('(<= 0 %s)' % kk).assume('(< %s %s)' % (kk, bound.e))
        for inv in spec.inv:
            sti.assume(self.fmt(inv, sti, ex))
        sti.env[var] = elem(kk) if elem else SV('Int', ival(kk))
        sti.ghost['k%d' % n] = kk

        def preserve(st2):
            if st2.flags.get('closing') and any(isinstance(x, (ast.Yield, ast.YieldFrom)) for y in s.body for x in ast.walk(y)):
                # a handler swallowed the GeneratorExit of close() and the loop goes on to an iteration that yields
                self.oblige(st2.fork().tag('preserve'), 'close.loop_continues_to_a_yield_after_GeneratorExit', 'false', 'safety')
            ex1 = {'k': '(+ %s 1)' % kk, 'n': bound.e}
            for j, inv in enumerate(spec.inv):
                self.oblige(st2.fork().tag('preserve'), 'loop%d.inv%d' % (n, j), self.fmt(inv, st2, ex1), 'inv')

        kbody = k.with_(normal=preserve, cont=preserve, brk=lambda st2: k.normal(st2.tag('loop%d.break' % n)))
        self.exec_block(s.body, sti, kbody)
        # exit
        ste = st.fork().tag('loop%d.exit' % n)
        self.havoc_comp(ste, comps)
        self.havoc_locals(ste, mods)
        ke = self.fresh('Int', 'k')
        exe = {'k': ke, 'n': bound.e}
        ste.assume('(<= 0 %s)' % ke).assume(OR(EQ(ke, bound.e), AND('(< %s 0)' % bound.e, EQ(ke, '0'))))
        for inv in spec.inv:
            ste.assume(self.fmt(inv, ste, exe))
        ste.env[var] = elem('(- %s 1)' % ke) if elem else SV('Int', ival('(- %s 1)' % ke))
        ste.ghost['k%d' % n] = ke
        k.normal(ste)

    def st_While(self, s, st, k):
        n, spec = self.loop_spec(s)
        if s.orelse:
            raise OutOfSubset('while/else', s)
        if spec is None:
            raise OutOfSubset('loop %d of %s has no invariant in the sidecar contract' % (n, self.qualname), s)
        mods = self.assigned_names(s.body)
        for j, inv in enumerate(spec.inv):
            self.oblige(st.fork().tag('loop%d.init' % n), 'loop%d.inv%d' % (n, j), self.fmt(inv, st), 'inv')
        sth = st.fork().tag('loop%d.iter' % n)
        self.havoc_comp(sth)
        self.havoc_locals(sth, mods)
        if self.theory:
            self.theory.loop_havoc(self, sth, n)
        for inv in spec.inv:
            sth.assume(self.fmt(inv, sth))

        def preserve(st2):
            for j, inv in enumerate(spec.inv):
                self.oblige(st2.fork().tag('preserve'), 'loop%d.inv%d' % (n, j), self.fmt(inv, st2), 'inv')

        for st2, c in self.eval_cond(s.test, sth):
            if isinstance(c, Exc):
                k.exc(st2, c)
                continue
            a = st2.fork().assume(c)
            kbody = k.with_(normal=preserve, cont=preserve, brk=lambda st3: k.normal(st3.tag('loop%d.break' % n)))
            self.exec_block(s.body, a, kbody)
            b = st2.fork().assume(NOT(c)).tag('loop%d.exit' % n)
            b.trace = [t for t in b.trace if t != 'loop%d.iter' % n]
            k.normal(b)

    # ------------------------------------------------------------------ generators
    def enclosing_handlers(self, node):
        return True

    def do_yield(self, y, st, k, target):
        c = self.c
        yn = self.yield_ord[id(y)]
        st = st.tag('yield%d' % yn)
        if st.flags.get('closing'):
            # close() was delivered as GeneratorExit, a handler swallowed it and the generator goes on to yield: Python raises
            # RuntimeError("generator ignored GeneratorExit") at the caller of close()
            self.oblige(st, 'close.generator_ignored_GeneratorExit', 'false', 'safety')
            return
        if c.kind == 'semidet-gen':
            res = self.fmt(c.spec, st)
            if st.yields >= 1:
                self.oblige(st, 'semidet.second_yield', 'false', 'safety')
                return
            self.oblige(st, 'yield.ok_iff_spec', '((_ is SOk) %s)' % res)
            self.oblige(st, 'yield.store_is_spec', EQ(st.comp['store'], '(st %s)' % res))
            st.yields += 1
            self.after_yield(st, k)
            return
        if self.theory:
            return self.theory.do_yield(self, y, st, k)
        raise OutOfSubset('yield in a %s' % c.kind, y)

    def after_yield(self, st, k, thrown=True):
        """fork into the three continuations (DESIGN 2.3)."""
        base = st
        nexth0 = base.comp['nexth']
        ist0 = base.comp['ist']

        def env_step(st2):
            # the consumer ran: store/shadow arbitrary; our own handles keep their state (ownership)
            st2.comp['store'] = self.fresh('Store', 'resume_store')
            st2.comp['shadow'] = self.fresh('(Array Int Term)', 'shadow')
            nh = self.fresh('Int', 'nexth')
            ni = self.fresh('(Array Int Int)', 'ist')
            st2.assume('(>= %s %s)' % (nh, nexth0))
            st2.assume('(forall ((h Int)) (! (=> (< h %s) (= (select %s h) (select %s h))) :pattern ((select %s h))))'
                       % (nexth0, ni, ist0, ni))
            st2.comp['nexth'] = nh
            st2.comp['ist'] = ni
            st2.ghost['resume_store'] = st2.comp['store']
            if self.theory:
                self.theory.env_step(self, st2)
            return st2
        k.normal(env_step(base.fork().tag('resume')))
        stc = env_step(base.fork().tag('close'))
        stc.flags = dict(stc.flags)
        stc.flags['closing'] = True
        k.exc(stc, Exc('GeneratorExit'))
        if thrown:
            k.exc(env_step(base.fork().tag('throw')), Exc('Thrown'))

    def do_yield_from(self, y, st, k):
        if self.theory:
            return self.theory.do_yield_from(self, y, st, k)
        raise OutOfSubset('yield from', y)

    # handle protocol ------------------------------------------------------------------------
    def new_handle(self, st, res_expr, hint='h'):
        h = self.fresh('Int', hint)
        st.assume('(>= %s %s)' % (h, st.comp['nexth']))
        st.assume(EQ('(h_res %s)' % h, res_expr))
        st.assume(EQ('(h_cs %s)' % h, st.comp['store']))
        nh = self.fresh('Int', 'nexth')
        st.assume('(> %s %s)' % (nh, h))
        st.comp['nexth'] = nh
        st.comp['ist'] = '(store %s %s FRESH)' % (st.comp['ist'], h)
        if self.theory:
            self.theory.on_new_handle(self, st, h)
        return SV('Iter', h)

    def iter_next(self, st, h):
        """semidet handle: next(). Returns outcomes (state, value | Exc('StopIteration'))."""
        outs = []
        ist = '(select %s %s)' % (st.comp['ist'], h.e)
        # fresh
        a = st.fork().assume(EQ(ist, 'FRESH'))
        self.oblige(a, 'next.store_is_creation_store', EQ(a.comp['store'], '(h_cs %s)' % h.e), 'safety')
        ok = a.fork().assume('((_ is SOk) (h_res %s))' % h.e).tag('ok')
        ok.comp['store'] = '(st (h_res %s))' % h.e
        ok.comp['shadow'] = self.fresh('(Array Int Term)', 'shadow')
        ok.comp['ist'] = '(store %s %s SUSP)' % (ok.comp['ist'], h.e)
        outs.append((ok, FALSE))
        no = a.assume('((_ is SFail) (h_res %s))' % h.e).tag('fail')
        no.comp['ist'] = '(store %s %s DONE)' % (no.comp['ist'], h.e)
        no.comp['shadow'] = self.fresh('(Array Int Term)', 'shadow')
        outs.append((no, Exc('StopIteration')))
        # not fresh: resume (finalises) or already done
        b = st.fork().assume(NOT(EQ(ist, 'FRESH'))).tag('again')
        self.iter_close(b, h)
        outs.append((b, Exc('StopIteration')))
        return outs

    def iter_close(self, st, h):
        ist = '(select %s %s)' % (st.comp['ist'], h.e)
        st.comp['store'] = ITE(EQ(ist, 'SUSP'),
                               '(unbindfp %s (h_cs %s) (st (h_res %s)))' % (st.comp['store'], h.e, h.e),
                               st.comp['store'])
        st.comp['ist'] = '(store %s %s DONE)' % (st.comp['ist'], h.e)

    # ------------------------------------------------------------------ expressions
    def eval_cond(self, e, st):
        """returns outcomes (state, smt-bool-string | Exc)"""
        if isinstance(e, ast.BoolOp):
            outs = [(st, None)]
            is_and = isinstance(e.op, ast.And)
            # short-circuit evaluation
            results = []

            def rec(i, st2, acc):
                if i == len(e.values):
                    results.append((st2, (AND if is_and else OR)(*acc) if acc else ('true' if is_and else 'false')))
                    return
                for st3, c in self.eval_cond(e.values[i], st2):
                    if isinstance(c, Exc):
                        results.append((st3, c))
                        continue
                    if i + 1 < len(e.values) and not self.is_effect_free(e.values[i + 1:]):
                        # later operands only evaluated if needed: fork
                        cont = st3.fork().assume(c if is_and else NOT(c))
                        stop = st3.assume(NOT(c) if is_and else c)
                        results.append((stop, 'false' if is_and else 'true'))
                        rec(i + 1, cont, acc)
                    else:
                        rec(i + 1, st3, acc + [c])
            rec(0, st, [])
            return results
        if isinstance(e, ast.UnaryOp) and isinstance(e.op, ast.Not):
            return [(s2, c if isinstance(c, Exc) else NOT(c)) for s2, c in self.eval_cond(e.operand, st)]
        outs = []
        for st2, v in self.eval(e, st):
            if isinstance(v, Exc):
                outs.append((st2, v))
            else:
                outs.append((st2, self.truthy(v, e)))
        return outs

    def is_effect_free(self, exprs):
        for e in exprs:
            for n in ast.walk(e):
                if isinstance(n, ast.Call):
                    f = n.func
                    if isinstance(f, ast.Name) and f.id in ('isinstance', 'len'):
                        continue
                    if isinstance(f, ast.Attribute) and f.attr in ('startswith', 'endswith', 'strip'):
                        continue
                    return False
                if isinstance(n, ast.Subscript) and isinstance(n.slice, ast.Slice):
                    continue
                if isinstance(n, ast.Attribute) and isinstance(n.ctx, ast.Load) and n.attr in ('startswith', 'endswith', 'strip'):
                    continue
                if isinstance(n, (ast.Attribute, ast.Subscript)):
                    return False
        return True

    def truthy(self, v, node=None):
        if v.sort == 'Bool':
            return v.e
        if v.sort == 'Int':
            return NOT(EQ(v.e, '0'))
        if v.sort == 'None':
            return 'false'
        if v.sort == 'PyList':
            return 'true' if v.meta['items'] else 'false'
        if v.sort == 'TList':
            return NOT('((_ is nil) %s)' % v.e)
        if v.sort == 'Str':
            return NOT(EQ(v.e, '""'))
        if self.theory:
            r = self.theory.truthy(self, v)
            if r is not None:
                return r
        raise OutOfSubset('truth value of %s' % v.sort, node)

    def eval(self, e, st):
        m = getattr(self, 'ev_' + type(e).__name__, None)
        if m is None:
            raise OutOfSubset('expression %s' % type(e).__name__, e)
        return m(e, st)

    def ev_Constant(self, e, st):
        v = e.value
        if v is None:
            return [(st, NONE)]
        if v is True:
            return [(st, TRUE)]
        if v is False:
            return [(st, FALSE)]
        if isinstance(v, int):
            return [(st, SV('Int', smt_int(v)))]
        if isinstance(v, str):
            return [(st, SV('Str', smt_str(v)))]
        raise OutOfSubset('constant %r' % (v,), e)

    def ev_Name(self, e, st):
        if e.id in st.env:
            return [(st, st.env[e.id])]
        if self.theory:
            r = self.theory.global_name(self, e.id, st)
            if r is not None:
                return [(st, r)]
        if e.id in self.assigned_names(self.fn.body) or e.id in [a.arg for a in self.fn.args.args]:
            # a local that is not assigned on this path: UnboundLocalError
            self.oblige(st.fork().tag('unbound:' + e.id), 'safety.unbound_local', 'false', 'safety')
            return []
        # module-level constant NAME = re.compile(<string constant>), assigned exactly once: a compiled pattern
        from . import core as _core
        assigns = [n for n in _core.module(self.modname).tree.body if isinstance(n, ast.Assign)
                   and any(isinstance(t, ast.Name) and t.id == e.id for t in n.targets)]
        if len(assigns) == 1 and isinstance(assigns[0].value, ast.Call) and ast.unparse(assigns[0].value.func) == 're.compile' \
                and len(assigns[0].value.args) == 1 and isinstance(assigns[0].value.args[0], ast.Constant) \
                and isinstance(assigns[0].value.args[0].value, str) and not assigns[0].value.keywords \
                and not self.rebinds_global(e.id):
            return [(st, SV('Regex', None, {'pattern': assigns[0].value.args[0].value}))]
        raise OutOfSubset('global name %s' % e.id, e)

    def rebinds_global(self, name):
        """is the module-level name assigned anywhere else (a `global` statement in some function)?"""
        from . import core as _core
        for n in ast.walk(_core.module(self.modname).tree):
            if isinstance(n, ast.Global) and name in n.names:
                return True
        return False

    def ev_List(self, e, st):
        outs = [(st, [])]
        for el in e.elts:
            nxt = []
            for st2, items in outs:
                if isinstance(items, Exc):
                    nxt.append((st2, items))
                    continue
                for st3, v in self.eval(el, st2):
                    nxt.append((st3, v if isinstance(v, Exc) else items + [v]))
            outs = nxt
        return [(s2, it if isinstance(it, Exc) else self.mk_pylist(it, s2)) for s2, it in outs]

    def mk_pylist(self, items, st):
        if self.theory:
            r = self.theory.mk_pylist(self, items, st)
            if r is not None:
                return r
        return SV('PyList', None, {'items': items})

    def ev_Dict(self, e, st):
        if not e.keys:
            return [(st, SV('PyDict', None, {'items': []}))]
        if self.theory:
            r = self.theory.ev_Dict(self, e, st)
            if r is not None:
                return r
        raise OutOfSubset('dict literal', e)

    def ev_Tuple(self, e, st):
        outs = self.ev_List(e, st)
        return [(s2, v if isinstance(v, Exc) else SV('Tuple', None, {'items': v.meta['items']})) for s2, v in outs]

    def ev_UnaryOp(self, e, st):
        if isinstance(e.op, ast.Not):
            return [(s2, c if isinstance(c, Exc) else SV('Bool', c)) for s2, c in self.eval_cond(e, st)]
        if isinstance(e.op, ast.USub):
            outs = []
            for s2, v in self.eval(e.operand, st):
                if isinstance(v, Exc) or v.sort != 'Int':
                    if isinstance(v, Exc):
                        outs.append((s2, v))
                        continue
                    raise OutOfSubset('unary minus on %s' % v.sort, e)
                outs.append((s2, SV('Int', '(- %s)' % v.e)))
            return outs
        raise OutOfSubset('unary operator', e)

    def ev_BoolOp(self, e, st):
        return [(s2, c if isinstance(c, Exc) else SV('Bool', c)) for s2, c in self.eval_cond(e, st)]

    def ev_IfExp(self, e, st):
        outs = []
        for st2, c in self.eval_cond(e.test, st):
            if isinstance(c, Exc):
                outs.append((st2, c))
                continue
            a = st2.fork().assume(c)
            b = st2.assume(NOT(c))
            outs.extend(self.eval(e.body, a))
            outs.extend(self.eval(e.orelse, b))
        return outs

    def ev_BinOp(self, e, st):
        outs = []
        for st2, a in self.eval(e.left, st):
            if isinstance(a, Exc):
                outs.append((st2, a))
                continue
            for st3, b in self.eval(e.right, st2):
                if isinstance(b, Exc):
                    outs.append((st3, b))
                    continue
                outs.append((st3, self.binop(e, a, b, st3)))
        return outs

    def binop(self, e, a, b, st):
        op = e.op
        if a.sort == 'Int' and b.sort == 'Int':
            if isinstance(op, ast.Add):
                return SV('Int', '(+ %s %s)' % (a.e, b.e))
            if isinstance(op, ast.Sub):
                return SV('Int', '(- %s %s)' % (a.e, b.e))
            if isinstance(op, ast.Mult):
                return SV('Int', '(* %s %s)' % (a.e, b.e))
        if a.sort == 'Str' and b.sort == 'Str' and isinstance(op, ast.Add):
            return SV('Str', '(str.++ %s %s)' % (a.e, b.e))
        if a.sort == 'PyList' and b.sort == 'Int' and isinstance(op, ast.Mult):
            items = a.meta['items']
            if len(items) == 1 and items[0].sort == 'None':
                return SV('IterArr', '((as const (Array Int Int)) (- 1))', {'len': b.e})
        if a.sort == 'PyList' and b.sort == 'PyList' and isinstance(op, ast.Add):
            return self.mk_pylist(a.meta['items'] + b.meta['items'], st)
        if self.theory:
            r = self.theory.binop(self, e, a, b, st)
            if r is not None:
                return r
        raise OutOfSubset('binary operator %s on %s,%s' % (type(op).__name__, a.sort, b.sort), e)

    def ev_Compare(self, e, st):
        if len(e.ops) != 1:
            raise OutOfSubset('chained comparison', e)
        outs = []
        for st2, a in self.eval(e.left, st):
            if isinstance(a, Exc):
                outs.append((st2, a))
                continue
            for st3, b in self.eval(e.comparators[0], st2):
                if isinstance(b, Exc):
                    outs.append((st3, b))
                    continue
                outs.append((st3, SV('Bool', self.compare(e, e.ops[0], a, b, st3))))
        return outs

    def compare(self, e, op, a, b, st):
        if isinstance(op, (ast.Is, ast.IsNot, ast.Eq, ast.NotEq)):
            neg = isinstance(op, (ast.IsNot, ast.NotEq))
            r = self.equal(e, op, a, b, st)
            return NOT(r) if neg else r
        if isinstance(op, (ast.In, ast.NotIn)) and b.sort in ('PyList', 'Tuple') and a.sort in ('Str', 'Int') \
                and all(i.sort == a.sort for i in b.meta['items']):
            r = OR(*[EQ(a.e, i.e) for i in b.meta['items']])
            return NOT(r) if isinstance(op, ast.NotIn) else r
        if a.sort == 'Int' and b.sort == 'Int':
            sym = {ast.Lt: '<', ast.LtE: '<=', ast.Gt: '>', ast.GtE: '>='}.get(type(op))
            if sym:
                return '(%s %s %s)' % (sym, a.e, b.e)
        if self.theory:
            r = self.theory.compare(self, e, op, a, b, st)
            if r is not None:
                return r
        raise OutOfSubset('comparison %s on %s,%s' % (type(op).__name__, a.sort, b.sort), e)

    def equal(self, e, op, a, b, st):
        ident = isinstance(op, (ast.Is, ast.IsNot))
        if a.sort == 'None' or b.sort == 'None':
            if a.sort == b.sort:
                return 'true'
            other = b if a.sort == 'None' else a
            if other.sort in ('Int', 'Bool', 'Str', 'Term', 'TList', 'PyList', 'Tuple'):
                return 'false'
            if self.theory:
                r = self.theory.is_none(self, other, st)
                if r is not None:
                    return r
            raise OutOfSubset('comparison of %s with None' % other.sort, e)
        if a.sort == b.sort and a.sort in ('Int', 'Bool', 'Str') and not ident:
            return EQ(a.e, b.e)
        if a.sort == b.sort and a.sort in ('Int', 'Str') and ident:
            # `is` on two strings / ints is object identity: equal values may be different objects (strings built at run time,
            # ints above 256), so it is not the equality the specifications speak of
            self.oblige(st.fork().tag('is'), 'safety.identity_comparison_is_exact', 'false', 'safety')
            return EQ(a.e, b.e)
        if a.sort == 'Term' and b.sort == 'Term':
            # `==`/`is` on engine objects is identity. The term datatype identifies objects of equal
            # structure, so the encoding is only exact when one side is a variable (identity = id)
            # or both are Python constants (== is value equality, A-PY-EQ). Otherwise: obligation.
            if ident:
                # `is` on two Python constants is object identity, not equality (equal ints above 256, equal strings built at
                # run time are different objects): exact only when one side is a variable object
                ok = OR('((_ is TVar) %s)' % a.e, '((_ is TVar) %s)' % b.e)
            else:
                ok = OR('((_ is TVar) %s)' % a.e, '((_ is TVar) %s)' % b.e,
                        AND('((_ is TConst) %s)' % a.e, '((_ is TConst) %s)' % b.e))
            self.oblige(st.fork().tag('eq'), 'safety.identity_comparison_is_exact', ok, 'safety')
            return EQ(a.e, b.e)
        if a.sort == 'Tuple' and b.sort == 'Tuple' and not ident:
            # tuples compare element-wise (elements of the scalar sorts only)
            ia, ib = a.meta['items'], b.meta['items']
            if len(ia) != len(ib):
                return 'false'
            if all(x.sort == y.sort and x.sort in ('Int', 'Bool', 'Str') for x, y in zip(ia, ib)):
                return AND(*[EQ(x.e, y.e) for x, y in zip(ia, ib)]) if ia else 'true'
        if a.sort == 'PyList' and b.sort == 'PyList' and not ident:
            if not a.meta['items'] or not b.meta['items']:
                return 'true' if len(a.meta['items']) == len(b.meta['items']) else 'false'
        if self.theory:
            r = self.theory.equal(self, e, op, a, b, st)
            if r is not None:
                return r
        raise OutOfSubset('equality on %s,%s' % (a.sort, b.sort), e)

    def ev_Subscript(self, e, st):
        outs = []
        for st2, base in self.eval(e.value, st):
            if isinstance(base, Exc):
                outs.append((st2, base))
                continue
            if isinstance(e.slice, ast.Slice):
                outs.extend(self.slice(e, base, st2))
                continue
            for st3, idx in self.eval(e.slice, st2):
                if isinstance(idx, Exc):
                    outs.append((st3, idx))
                    continue
                outs.extend(self.subscript(e, base, idx, st3))
        return outs

    def slice(self, e, base, st):
        if self.theory:
            r = self.theory.slice(self, e, base, st)
            if r is not None:
                return r
        raise OutOfSubset('slice of %s' % base.sort, e)

    def subscript(self, e, base, idx, st):
        if base.sort == 'TList' and idx.sort == 'Int':
            self.oblige(st, 'safety.index', AND('(<= 0 %s)' % idx.e, '(< %s (len %s))' % (idx.e, base.e)), 'safety')
            return [(st, SV('Term', '(nth %s %s)' % (base.e, idx.e)))]
        if base.sort == 'IterArr' and idx.sort == 'Int':
            self.oblige(st, 'safety.index', AND('(<= 0 %s)' % idx.e, '(< %s %s)' % (idx.e, base.meta['len'])), 'safety')
            return [(st, SV('OptIter', '(select %s %s)' % (base.e, idx.e)))]
        if base.sort == 'PyList' and idx.sort == 'Int' and re.fullmatch(r'\d+', idx.e):
            i = int(idx.e)
            if i < len(base.meta['items']):
                return [(st, base.meta['items'][i])]
            self.oblige(st, 'safety.index', 'false', 'safety')
            return []
        if self.theory:
            r = self.theory.subscript(self, e, base, idx, st)
            if r is not None:
                return r
        raise OutOfSubset('subscript on %s' % base.sort, e)

    def ev_Attribute(self, e, st):
        outs = []
        for st2, base in self.eval(e.value, st):
            if isinstance(base, Exc):
                outs.append((st2, base))
                continue
            outs.extend(self.attr_read(base, e.attr, st2, e))
        return outs

    # attribute model for the engine's term classes (fields as selectors / store cells)
    def attr_read(self, base, attr, st, node):
        if base.sort == 'Term':
            if attr == '_name':
                self.oblige(st, 'safety.attr._name', OR('((_ is TAtom) %s)' % base.e, '((_ is TFun) %s)' % base.e), 'safety')
                return [(st, SV('Str', ITE('((_ is TAtom) %s)' % base.e, '(aname %s)' % base.e, '(fname %s)' % base.e)))]
            if attr == '_args':
                self.oblige(st, 'safety.attr._args', '((_ is TFun) %s)' % base.e, 'safety')
                return [(st, SV('TList', '(fargs %s)' % base.e))]
            if attr == '_is_bound':
                self.oblige(st, 'safety.attr._is_bound', '((_ is TVar) %s)' % base.e, 'safety')
                return [(st, SV('Bool', '(isbound %s (vid %s))' % (st.comp['store'], base.e)))]
            if attr == '_value':
                self.oblige(st, 'safety.attr._value', '((_ is TVar) %s)' % base.e, 'safety')
                vid = '(vid %s)' % base.e
                written = vid in st.flags.get('shadow_written', set())
                if not written:
                    # reading _value of an unbound, never assigned variable raises AttributeError
                    self.oblige(st, 'safety.attr._value_assigned', '(isbound %s %s)' % (st.comp['store'], vid), 'safety')
                return [(st, SV('Term', ITE('(isbound %s %s)' % (st.comp['store'], vid),
                                            '(bval (select %s %s))' % (st.comp['store'], vid),
                                            '(select %s %s)' % (st.comp['shadow'], vid))))]
        if self.theory:
            r = self.theory.attr_read(self, base, attr, st, node)
            if r is not None:
                return r
        raise OutOfSubset('attribute %s of %s' % (attr, base.sort), node)

    def attr_write(self, base, attr, v, st, node):
        if base.sort == 'Term':
            vid = '(vid %s)' % base.e
            s = st.comp['store']
            if attr == '_is_bound':
                self.oblige(st, 'safety.attr._is_bound', '((_ is TVar) %s)' % base.e, 'safety')
                if v.sort != 'Bool':
                    raise OutOfSubset('_is_bound := %s' % v.sort, node)
                st.comp['store'] = ITE(v.e, '(store %s %s (Bound (select %s %s)))' % (s, vid, st.comp['shadow'], vid),
                                       '(store %s %s Unbound)' % (s, vid))
                if v.e != 'false':
                    if vid not in st.flags.get('shadow_written', set()):
                        self.oblige(st, 'safety.bind_needs_value', 'false', 'safety')
                return [(st, None)]
            if attr == '_value':
                self.oblige(st, 'safety.attr._value', '((_ is TVar) %s)' % base.e, 'safety')
                if v.sort != 'Term':
                    raise OutOfSubset('_value := %s' % v.sort, node)
                st.comp['store'] = ITE('(isbound %s %s)' % (s, vid), '(store %s %s (Bound %s))' % (s, vid, v.e), s)
                st.comp['shadow'] = '(store %s %s %s)' % (st.comp['shadow'], vid, v.e)
                st.flags.setdefault('shadow_written', set()).add(vid)
                return [(st, None)]
        if self.theory:
            r = self.theory.attr_write(self, base, attr, v, st, node)
            if r is not None:
                return r
        raise OutOfSubset('attribute store %s on %s' % (attr, base.sort), node)

    def ev_ListComp(self, e, st):
        # [f(a) for a in L] with f a pure callee with a list-lifted specification
        if len(e.generators) == 1 and not e.generators[0].ifs and isinstance(e.generators[0].target, ast.Name):
            g = e.generators[0]
            var = g.target.id
            elt = e.elt
            if isinstance(elt, ast.Call) and len(elt.args) == 1 and isinstance(elt.args[0], ast.Name) \
                    and elt.args[0].id == var and not elt.keywords:
                cname = self.resolve_fn(elt.func, st)
                c = self.reg.get(cname) if cname else None
                if c is not None and c.kind == 'pure' and c.maps:
                    outs = []
                    for st2, lst in self.eval(g.iter, st):
                        if isinstance(lst, Exc):
                            outs.append((st2, lst))
                        elif lst.sort == 'TList':
                            for r in c.requires:
                                if c.ghost.get('maps_requires'):
                                    self.oblige(st2, 'requires.%s.elementwise' % c.name.split('.')[-1],
                                                self.fmt_c(c.ghost['maps_requires'], {'l': lst.e, 'S': st2.comp['store']}), 'pre')
                                    break
                            outs.append((st2, SV(c.ghost.get('maps_sort', 'TList'), '(%s %s %s)' % (c.maps, lst.e, st2.comp['store']))))
                        else:
                            raise OutOfSubset('comprehension over %s' % lst.sort, e)
                    return outs
        if self.theory:
            r = self.theory.ev_ListComp(self, e, st)
            if r is not None:
                return r
        raise OutOfSubset('list comprehension shape', e)

    def ev_JoinedStr(self, e, st):
        if self.theory:
            r = self.theory.ev_JoinedStr(self, e, st)
            if r is not None:
                return r
        raise OutOfSubset('f-string', e)

    def resolve_fn(self, f, st):
        if isinstance(f, ast.Name):
            if f.id in st.env:
                return None
            return '%s.%s' % (self.modname, f.id)
        return None

    # ------------------------------------------------------------------ calls
    def ev_Call(self, e, st):
        outs = self._ev_Call(e, st)
        if st.flags.get('rec_edges') and not (isinstance(e.func, ast.Name) and e.func.id in ('isinstance', 'len', 'range')):
            outs = list(outs) + [(st.fork().tag('recursion-error-in-call'), Exc('RecursionError'))]
        return outs

    def _ev_Call(self, e, st):
        if e.keywords and not (self.theory and self.theory.accept_keywords(self, e)):
            raise OutOfSubset('keyword arguments', e)
        f = e.func
        if isinstance(f, ast.Attribute) and isinstance(f.value, ast.Name) and f.value.id == 're' and f.attr in ('fullmatch', 'match', 'search') \
                and len(e.args) == 2 and isinstance(e.args[0], ast.Constant) and isinstance(e.args[0].value, str) and not e.keywords:
            # the match object is only ever tested for truth: its truth value is membership in the translated regular language
            from . import pyre
            try:
                rx = pyre.translate(e.args[0].value, f.attr)
            except pyre.Unsupported as u:
                raise OutOfSubset('regular expression: %s' % u, e)
            outs = []
            for st2, v in self.eval(e.args[1], st):
                if isinstance(v, Exc):
                    outs.append((st2, v))
                elif v.sort != 'Str':
                    raise OutOfSubset('re.%s on %s' % (f.attr, v.sort), e)
                else:
                    outs.append((st2, SV('Bool', '(str.in_re %s %s)' % (v.e, rx))))
            return outs
        if self.theory:
            r = self.theory.call_name_ast(self, e, st)
            if r is not None:
                return r
        if isinstance(f, ast.Name) and f.id not in st.env:
            return self.call_name(e, f.id, st)
        if isinstance(f, ast.Attribute):
            return self.call_method(e, st)
        if self.theory:
            r = self.theory.call_value(self, e, st)
            if r is not None:
                return r
        raise OutOfSubset('call of %s' % ast.unparse(f)[:40], e)

    def eval_args(self, args, st):
        outs = [(st, [])]
        for a in args:
            if isinstance(a, ast.Starred):
                raise OutOfSubset('*args at call site', a)
            nxt = []
            for st2, acc in outs:
                if isinstance(acc, Exc):
                    nxt.append((st2, acc))
                    continue
                for st3, v in self.eval(a, st2):
                    nxt.append((st3, v if isinstance(v, Exc) else acc + [v]))
            outs = nxt
        return outs

    def call_name(self, e, name, st):
        if name == 'isinstance':
            return self.call_isinstance(e, st)
        outs = []
        for st2, args in self.eval_args(e.args, st):
            if isinstance(args, Exc):
                outs.append((st2, args))
                continue
            outs.extend(self.apply_name(e, name, args, st2))
        return outs

    CLASS_TESTS = {
        'IUnifiable': lambda t: NOT('((_ is TConst) %s)' % t),
        'Atom': lambda t: '((_ is TAtom) %s)' % t,
        'Variable': lambda t: '((_ is TVar) %s)' % t,
        'Functor': lambda t: '((_ is TFun) %s)' % t,
    }

    def call_isinstance(self, e, st):
        if len(e.args) != 2 or not isinstance(e.args[1], ast.Name):
            raise OutOfSubset('isinstance form', e)
        cls = e.args[1].id
        outs = []
        for st2, v in self.eval(e.args[0], st):
            if isinstance(v, Exc):
                outs.append((st2, v))
                continue
            if v.sort == 'Term' and cls in self.CLASS_TESTS and self.modname == 'engine':
                outs.append((st2, SV('Bool', self.CLASS_TESTS[cls](v.e))))
                continue
            if self.theory:
                r = self.theory.isinstance(self, v, cls, st2, e)
                if r is not None:
                    outs.append((st2, SV('Bool', r)))
                    continue
            raise OutOfSubset('isinstance(%s, %s)' % (v.sort, cls), e)
        return outs

    def apply_name(self, e, name, args, st):
        if name in ('min', 'max') and len(args) == 2 and args[0].sort == args[1].sort == 'Int':
            a, b = args[0].e, args[1].e
            return [(st, SV('Int', ITE('(<= %s %s)' % ((a, b) if name == 'min' else (b, a)), a, b)))]
        if name == 'len' and len(args) == 1:
            a = args[0]
            if a.sort == 'TList':
                return [(st, SV('Int', '(len %s)' % a.e))]
            if a.sort == 'IterArr':
                return [(st, SV('Int', a.meta['len']))]
            if a.sort == 'PyList':
                return [(st, SV('Int', str(len(a.meta['items']))))]
            if a.sort == 'Str':
                return [(st, SV('Int', '(str.len %s)' % a.e))]
        if name == 'iter' and len(args) == 1 and args[0].sort == 'Iter':
            return [(st, args[0])]
        if name == 'next' and len(args) == 1:
            h = args[0]
            if h.sort == 'OptIter':
                self.oblige(st, 'safety.next_on_none', NOT(EQ(h.e, '(- 1)')), 'safety')
                h = SV('Iter', h.e)
            if h.sort == 'Iter':
                return self.iter_next(st, h)
        if name in ('YPSuccess', 'YPFail') and not args and self.modname == 'engine':
            res = '(SOk %s)' % st.comp['store'] if name == 'YPSuccess' else 'SFail'
            h = self.new_handle(st, res, name)
            if self.theory and 'owned' in st.comp:
                st.assume(EQ('(h_ans %s)' % h.e, '(ASemidet %s)' % res))
            return [(st, h)]
        if self.modname == 'engine' and name == 'Functor' and len(args) == 2 and args[0].sort == 'Str' \
                and args[1].sort == 'PyList' and all(i.sort == 'Term' for i in args[1].meta['items']):
            lst = 'nil'
            for i in reversed(args[1].meta['items']):
                lst = '(cons %s %s)' % (i.e, lst)
            return [(st, SV('Term', '(TFun %s %s)' % (args[0].e, lst)))]
        if self.modname == 'engine' and name == 'Functor' and len(args) == 2 and args[0].sort == 'Str' \
                and args[1].sort == 'TList':
            return [(st, SV('Term', '(TFun %s %s)' % (args[0].e, args[1].e)))]
        if self.modname == 'engine' and name == 'Atom' and len(args) == 1 and args[0].sort == 'Str':
            return [(st, SV('Term', '(TAtom %s)' % args[0].e))]
        if self.theory:
            r = self.theory.apply_name(self, e, name, args, st)
            if r is not None:
                return r
        cname = '%s.%s' % (self.modname, name)
        if cname in self.reg:
            return self.apply_contract(e, self.reg[cname], args, st)
        r = self.try_inline(e, name, args, st)
        if r is not None:
            return r
        raise OutOfSubset('call of %s (no contract)' % name, e)

    def call_method(self, e, st):
        f = e.func
        outs = []
        for st2, base in self.eval(f.value, st):
            if isinstance(base, Exc):
                outs.append((st2, base))
                continue
            for st3, args in self.eval_args(e.args, st2):
                if isinstance(args, Exc):
                    outs.append((st3, args))
                    continue
                outs.extend(self.apply_method(e, base, f.attr, args, st3))
        return outs

    TERM_CLASSES = [('TAtom', 'Atom'), ('TVar', 'Variable'), ('TFun', 'Functor')]

    def apply_method(self, e, base, meth, args, st):
        if base.sort == 'Regex' and meth in ('fullmatch', 'match', 'search') and len(args) == 1 and args[0].sort == 'Str':
            from . import pyre
            try:
                rx = pyre.translate(base.meta['pattern'], meth)
            except pyre.Unsupported as u:
                raise OutOfSubset('regular expression: %s' % u, e)
            return [(st, SV('Bool', '(str.in_re %s %s)' % (args[0].e, rx)))]
        if base.sort in ('Iter', 'OptIter') and meth == 'close' and not args:
            if base.sort == 'OptIter':
                self.oblige(st, 'safety.close_on_none', NOT(EQ(base.e, '(- 1)')), 'safety')
            self.iter_close(st, SV('Iter', base.e))
            if base.meta.get('nondet'):
                # a generator that may run user code (a Python predicate reached through yield from): its finalisation can raise;
                # the generator is finished either way
                return [(st, NONE), (st.fork().tag('close.raises'), Exc('UserException'))]
            return [(st, NONE)]
        if base.sort == 'Term':
            # dynamic dispatch = case split on the constructor; a non-IUnifiable receiver has no method
            self.oblige(st, 'safety.method_receiver.' + meth, NOT('((_ is TConst) %s)' % base.e), 'safety')
            outs = []
            from . import core as _core
            mod = _core.module(self.modname)
            for ctor, cls in self.TERM_CLASSES:
                cname = '%s.%s.%s' % (self.modname, cls, meth)
                if cname not in self.reg:
                    if ('%s.%s' % (cls, meth)) not in mod.functions:
                        # the class has no such method: AttributeError unless the receiver is never of this class
                        self.oblige(st, 'safety.method_receiver.%s.not_%s' % (meth, cls), NOT('((_ is %s) %s)' % (ctor, base.e)), 'safety')
                        continue
                    r = self.try_inline(e, '%s.%s' % (cls, meth), [base] + args, st.fork().assume('((_ is %s) %s)' % (ctor, base.e)).tag(cls))
                    if r is not None:
                        outs.extend(r)
                        continue
                    raise OutOfSubset('no contract for %s' % cname, e)
                b = st.fork().assume('((_ is %s) %s)' % (ctor, base.e)).tag(cls)
                outs.extend(self.apply_contract(e, self.reg[cname], [base] + args, b))
            return outs
        if self.theory:
            r = self.theory.apply_method(self, e, base, meth, args, st)
            if r is not None:
                return r
        if base.sort == 'Str' and meth in ('startswith', 'endswith') and len(args) == 1 and args[0].sort == 'Str':
            return [(st, SV('Bool', '(str.%s %s %s)' % ('prefixof' if meth == 'startswith' else 'suffixof', args[0].e, base.e)))]
        raise OutOfSubset('method %s on %s' % (meth, base.sort), e)

    def apply_contract(self, e, c, args, st):
        """Modular call: the caller sees the callee's contract only."""
        self.used_contracts.add(c.name)
        params = list(c.params)
        if params and params[-1][1].startswith('Star:'):
            # *args of the callee: the remaining positional arguments become one list
            n = len(params) - 1
            if len(args) >= n and all(a.sort == 'Term' for a in args[n:]):
                out = 'nil'
                for a in reversed(args[n:]):
                    out = '(cons %s %s)' % (a.e, out)
                args = args[:n] + [SV('TList', out)]
        kws = {k.arg: k.value for k in getattr(e, 'keywords', [])} if isinstance(e, ast.Call) else {}
        if None in kws or any(k not in [pn for pn, _ in params[len(args):]] for k in kws):
            raise OutOfSubset('keyword argument not a remaining parameter of %s' % c.name, e)
        if len(args) < len(params) and all(ps.startswith('Opt:') or pn in kws for pn, ps in params[len(args):]):
            for pn, ps in params[len(args):]:
                if pn in kws:
                    # keyword argument: evaluated at the call (constants and names only, so no fork and no effect)
                    if not isinstance(kws[pn], (ast.Constant, ast.Name)) and not (
                            isinstance(kws[pn], ast.UnaryOp) and isinstance(kws[pn].operand, ast.Constant)):
                        raise OutOfSubset('keyword argument expression', e)
                    kv = self.eval(kws[pn], st)
                    if len(kv) != 1 or isinstance(kv[0][1], Exc):
                        raise OutOfSubset('keyword argument expression', e)
                    args = args + [kv[0][1]]
                    continue
                d = ps.split(':', 2)
                dv = d[2] if len(d) > 2 else 'None'
                if dv[:1] in ('"', "'"):
                    args = args + [SV('Str', smt_str(ast.literal_eval(dv)))]
                else:
                    args = args + [NONE if dv == 'None' else (TRUE if dv == 'True' else FALSE if dv == 'False' else SV('Int', dv))]
        elif kws:
            raise OutOfSubset('keyword arguments of %s' % c.name, e)
        if len(args) != len(params):
            raise OutOfSubset('arity of call to %s' % c.name, e)
        ex = {}
        for (pn, psort), a in zip(c.params, args):
            if psort.startswith('Opt:') or psort.startswith('Star:'):
                psort = psort.split(':')[1]
            want = psort.split(':')[0]
            if want == 'Str' and a.sort == 'Str':
                pass
            elif want != a.sort and want != 'Any':
                if self.theory and self.theory.coerce(self, a, want, st) is not None:
                    a = self.theory.coerce(self, a, want, st)
                else:
                    self.oblige(st, 'safety.argument_sort.%s.%s' % (c.name.split('.')[-1], pn), 'false', 'safety')
                    return []
            if ':' in psort:
                self.oblige(st, 'requires.%s.%s' % (c.name.split('.')[-1], pn),
                            '((_ is %s) %s)' % (psort.split(':')[1], a.e), 'pre')
            ex[pn] = a.e if a.e is not None else ''
            for mk, mv in a.meta.items():
                if isinstance(mv, str):
                    ex['%s.%s' % (pn, mk)] = mv
            if self.theory:
                for mk, mv in (self.theory.contract_views(self, a, st) or {}).items():
                    ex['%s.%s' % (pn, mk)] = mv
        if 'store' in st.comp:
            ex['S0'] = st.comp['store']
            ex['S'] = st.comp['store']
        for n, _ in self.comps:
            ex[n + '0'] = st.comp[n]
            ex[n] = st.comp[n]
        for i, r in enumerate(c.requires):
            self.oblige(st, 'requires.%s.%d' % (c.name.split('.')[-1], i), self.fmt_c(r, ex), 'pre')
        if c.kind == 'pure':
            if c.value is not None:
                return [(st, self.mk_ret(c.ret, self.fmt_c(c.value, ex), st))]
            r = self.fresh(self.smt_sort(c.ret), 'r')
            ex['result'] = r
            for en in c.ensures:
                st.assume(self.fmt_c(en, ex))
            return [(st, self.mk_ret(c.ret, r, st))]
        if c.kind in ('iterfn', 'semidet-gen'):
            h = self.new_handle(st, self.fmt_c(c.spec, ex), c.name.split('.')[-1])
            return [(st, h)]
        if c.kind in ('fn', 'handlefn'):
            # a function with effects: havoc what it may modify, assume its postcondition
            outs_exc = []
            for cls, cond in c.raises.items():
                b = st.fork().tag('raises:' + cls)
                if cond:
                    b.assume(self.fmt_c(cond, ex))
                outs_exc.append((b, Exc(cls)))
            for cls, cond in c.raises.items():
                if cond:
                    st.assume(NOT(self.fmt_c(cond, ex)))
            for n in c.modifies:
                sort = dict(self.comps)[n]
                st.comp[n] = self.fresh(sort, n)
                ex[n] = st.comp[n]
            if n_is_store(c.modifies):
                ex['S'] = st.comp['store']
            res = None
            if c.kind == 'handlefn':
                res = self.theory.new_nd_handle(self, st, None, c.name.split('.')[-1])
                ex['result'] = res.e
            elif c.ret and c.ret != 'None':
                r = self.fresh(self.smt_sort(c.ret), 'r')
                ex['result'] = r
                res = self.mk_ret(c.ret, r, st)
                for mk_, mv_ in res.meta.items():
                    if isinstance(mv_, str):
                        ex['result.' + mk_] = mv_      # components of a structured result
            for en in c.ensures:
                m = _FUNPOST.match(en) if getattr(self.theory, 'FUNCTIONAL_POST', False) else None
                if m and (m.group(1) == 'result' or m.group(1) in c.modifies) and '{%s}' % m.group(1) not in m.group(2) \
                        and c.kind == 'fn':
                    # a defining equation of the post-state / result: substitute instead of naming it (same meaning, the
                    # solvers need no equality reasoning under recursive functions then)
                    val = self.fmt_c(m.group(2), ex)
                    ex[m.group(1)] = val
                    if m.group(1) == 'result':
                        res = self.mk_ret(c.ret, val, st)
                    else:
                        st.comp[m.group(1)] = val
                    continue
                st.assume(self.fmt_c(en, ex))
            if self.theory:
                self.theory.after_call(self, st)
            return [(st, res if res is not None else NONE)] + outs_exc
        if self.theory:
            r = self.theory.apply_contract(self, e, c, args, ex, st)
            if r is not None:
                return r
        raise OutOfSubset('contract kind %s at call site' % c.kind, e)

    def fmt_c(self, tmpl, ex):
        def sub(m):
            k = m.group(1)
            if k not in ex:
                raise OutOfSubset('callee contract placeholder {%s}' % k)
            return ex[k]
        return _PH.sub(sub, tmpl)

    def smt_sort(self, s):
        if self.theory and self.theory.smt_sort(s):
            return self.theory.smt_sort(s)
        return {'Str': 'String', 'Iter': 'Int'}.get(s, s)

    def mk_ret(self, sort, e, st):
        if sort in ('Term', 'TList', 'Int', 'Bool', 'Str', 'Iter'):
            return SV(sort, e)
        if self.theory:
            r = self.theory.mk_ret(self, sort, e, st)
            if r is not None:
                return r
        raise OutOfSubset('return sort %s' % sort)
