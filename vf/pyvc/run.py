"""Driver: generate and discharge the obligations of a set of functions under contract."""
import importlib
import os
import sys
import time

from . import core
from .exec import Executor
from .. import smt

SPEC_DIR = os.path.join(os.path.dirname(os.path.dirname(os.path.dirname(os.path.abspath(__file__)))), 'spec')


def prelude(*names):
    """concatenation of the spec files; a file may carry a line `; DEFINES: f g`: the uninterpreted declarations
    `(declare-fun f ...)` of earlier files are dropped then (the file gives the definitions)"""
    out = ['(set-logic ALL)']
    for n in names:
        with open(os.path.join(SPEC_DIR, n)) as f:
            text = f.read()
        for line in text.split('\n'):
            if line.startswith('; DEFINES:'):
                for fn in line[len('; DEFINES:'):].split():
                    out = ['\n'.join(l for l in o.split('\n') if not l.startswith('(declare-fun %s ' % fn)) for o in out]
        out.append(text)
    return '\n'.join(out)


def load_contracts(*mods):
    reg = {}
    for m in mods:
        mod = importlib.import_module('contracts.' + m)
        reg.update(mod.C)
    return reg


def gen_function(modname, qualname, reg, theory=None):
    """returns dict(obls=[Obligation], decls=[...], error=None|str, dropped=[...], hash=...)"""
    mod = core.module(modname)
    fn = mod.functions.get(qualname)
    cname = '%s.%s' % (modname, qualname)
    if fn is None:
        return dict(name=cname, obls=[], decls=[], error='function not found in the source', dropped=[], hash=None, paths=0)
    c = reg[cname]
    ex = Executor(modname, qualname, fn, c, reg, theory=theory)
    ex.local_alias = _local_alias(cname, fn)
    try:
        ex.run()
        err = None
    except core.OutOfSubset as e:
        err = str(e)
    except RecursionError:
        err = 'path explosion (recursion limit)'
    return dict(name=cname, obls=ex.obls, decls=ex.decl_lines(), error=err, dropped=ex.dropped,
                hash=core.fn_hash(fn) + '.' + core.class_context(mod) + _inlined_hash(ex), paths=ex.paths,
                bindings=core.binding_names(fn), used=sorted(ex.used_contracts), inlined=sorted(ex.inlined))


_BASE = None


def _local_alias(cname, fn):
    """contract-local name -> name of the same binding site in the current source (a consistent renaming of a local keeps its
    loop invariants): the baseline records the binding sites of the function in order; a name that no longer occurs in the
    function is looked up at its old position"""
    global _BASE
    if _BASE is None:
        import json
        try:
            _BASE = json.load(open(os.path.join(os.path.dirname(os.path.dirname(os.path.dirname(os.path.abspath(__file__)))),
                                                'baseline_obligations.json')))
        except (OSError, ValueError):
            _BASE = {}
    old = _BASE.get(cname, {}).get('bindings')
    cur = core.binding_names(fn)
    if not old or len(old) != len(cur):
        return {}
    alias = {}
    for o, n in zip(old, cur):
        if o != n:
            if alias.get(o, n) != n or o in cur:
                return {}          # not a consistent renaming
            alias[o] = n
    return alias


def _inlined_hash(ex):
    """helpers without a contract that were executed in place: their text is part of what was verified"""
    out = ''
    for q in sorted(getattr(ex, 'inlined', ())):
        m, qn = q.split('.', 1)
        f = core.module(m).functions.get(qn)
        if f is not None:
            out += '+' + core.fn_hash(f)[:8]
    return out


def discharge(gens, prelude_text, timeout=10, jobs=None):
    """gens: list of gen_function results. Returns list of per-obligation result dicts."""
    jobs_l = []
    index = []
    for g in gens:
        seen = {}
        for o in g['obls']:
            n = seen.get(o.name, 0)
            seen[o.name] = n + 1
            nm = o.name if n == 0 else '%s#%d' % (o.name, n)
            jobs_l.append((nm, o.smt(prelude_text, g['decls'])))
            index.append((g, o, nm))
    res = smt.run_many(jobs_l, timeout=timeout, jobs=jobs)
    out = []
    for (g, o, nm), r, (_, text) in zip(index, res, jobs_l):
        r = dict(r)
        r['name'] = nm
        r['function'] = g['name']
        r['kind'] = o.kind
        r['smt'] = text
        out.append(r)
    return out


def main(argv):
    sys.path.insert(0, os.path.dirname(SPEC_DIR))
    reg = load_contracts('engine_terms')
    names = argv or [n for n in reg]
    t0 = time.time()
    gens = []
    for n in names:
        modname, qual = n.split('.', 1)
        g = gen_function(modname, qual, reg)
        gens.append(g)
        print('%-32s obligations=%d paths=%d %s' % (n, len(g['obls']), g['paths'], g['error'] or ''))
    res = discharge(gens, prelude('terms.smt2'), timeout=int(os.environ.get('VF_TIMEOUT', '10')))
    bad = [r for r in res if r['verdict'] != 'unsat']
    for r in bad:
        print('NOT DISCHARGED', r['verdict'], r['name'], r['tried'])
    print('total %d discharged %d in %.1fs' % (len(res), len(res) - len(bad), time.time() - t0))
    if os.environ.get('VF_DUMP') and bad:
        with open(os.environ['VF_DUMP'], 'w') as f:
            f.write(bad[0]['smt'])


if __name__ == '__main__':
    main(sys.argv[1:])
