"""Python `re` patterns (the small fragment the code base uses) as SMT-LIB regular expressions.

Supported: literal characters, escapes (\\. \\\\ \\n \\t \\d \\w \\s and escaped punctuation), character classes with ranges and
negation-free members, `.`, groups `( )` / `(?: )`, alternation `|`, quantifiers `* + ?`, anchors `^` at the start and `$` at the
end of the pattern.  Anything else raises Unsupported (the caller reports the function as outside the subset).

Semantics of the three entry points on a str subject without flags (Python 3 `re` documentation):
  re.fullmatch(p, s)  truthy  iff  s in L(p)                       (`$` then matches only at the very end: nothing may follow)
  re.match(p, s)      truthy  iff  some prefix of s is in L(p); with a trailing `$` the prefix must end at the end of s or just
                                   before a final newline:  s in L(p) . ("\\n")?
  re.search(p, s)     like match at any start position (`^` anchors it at position 0)
"""


class Unsupported(Exception):
    pass


def smt_char(c):
    o = ord(c)
    if 32 <= o < 127 and c not in '"\\':
        return '"%s"' % c
    return '"\\u{%x}"' % o


def _range(a, b):
    return '(re.range %s %s)' % (smt_char(a), smt_char(b))


DIGIT = _range('0', '9')
WORD = '(re.union %s %s %s (str.to_re "_"))' % (_range('a', 'z'), _range('A', 'Z'), DIGIT)   # ASCII view of \\w: see note in translate
SPACE = '(re.union (str.to_re " ") (str.to_re "\\u{9}") (str.to_re "\\u{a}") (str.to_re "\\u{d}") (str.to_re "\\u{b}") (str.to_re "\\u{c}"))'


class _P:
    def __init__(self, pat):
        self.p = pat
        self.i = 0
        self.unicode_classes = False

    def peek(self):
        return self.p[self.i] if self.i < len(self.p) else None

    def take(self):
        c = self.p[self.i]
        self.i += 1
        return c

    def alt(self):
        parts = [self.seq()]
        while self.peek() == '|':
            self.take()
            parts.append(self.seq())
        return parts[0] if len(parts) == 1 else '(re.union %s)' % ' '.join(parts)

    def seq(self):
        items = []
        while self.peek() is not None and self.peek() not in '|)':
            if self.peek() == '$':
                break
            items.append(self.quant())
        if not items:
            return '(str.to_re "")'
        return items[0] if len(items) == 1 else '(re.++ %s)' % ' '.join(items)

    def quant(self):
        a = self.atom()
        while self.peek() in ('*', '+', '?'):
            q = self.take()
            if self.peek() in ('?', '+'):
                raise Unsupported('lazy/possessive quantifier')
            a = {'*': '(re.* %s)', '+': '(re.+ %s)', '?': '(re.opt %s)'}[q] % a
        if self.peek() == '{':
            raise Unsupported('counted repetition')
        return a

    def escape(self, in_class=False):
        c = self.take()
        if c == 'd':
            self.unicode_classes = True
            return DIGIT
        if c == 'w':
            self.unicode_classes = True
            return WORD
        if c == 's':
            self.unicode_classes = True
            return SPACE
        if c == 'n':
            return '(str.to_re "\\u{a}")'
        if c == 't':
            return '(str.to_re "\\u{9}")'
        if c.isalnum():
            raise Unsupported('escape \\%s' % c)
        return '(str.to_re %s)' % smt_char(c)

    def atom(self):
        c = self.take()
        if c == '(':
            if self.p[self.i:self.i + 2] == '?:':
                self.i += 2
            elif self.peek() == '?':
                raise Unsupported('group extension')
            r = self.alt()
            if self.peek() != ')':
                raise Unsupported('unbalanced group')
            self.take()
            return r
        if c == '[':
            return self.cls()
        if c == '.':
            return '(re.diff re.allchar (str.to_re "\\u{a}"))'
        if c == '\\':
            return self.escape()
        if c in '^$*+?{}':
            raise Unsupported('%r in this position' % c)
        return '(str.to_re %s)' % smt_char(c)

    def cls(self):
        if self.peek() == '^':
            raise Unsupported('negated class')
        members = []
        first = True
        while True:
            c = self.peek()
            if c is None:
                raise Unsupported('unterminated class')
            if c == ']' and not first:
                self.take()
                break
            first = False
            c = self.take()
            if c == '\\':
                members.append(self.escape(True))
                continue
            if self.peek() == '-' and self.i + 1 < len(self.p) and self.p[self.i + 1] != ']':
                self.take()
                hi = self.take()
                if hi == '\\':
                    raise Unsupported('escape as range end')
                members.append(_range(c, hi))
            else:
                members.append('(str.to_re %s)' % smt_char(c))
        return members[0] if len(members) == 1 else '(re.union %s)' % ' '.join(members)


def translate(pattern, how):
    """-> SMT-LIB RegLan term R such that `re.<how>(pattern, s)` is truthy iff (str.in_re s R).
    Note: \\d \\w \\s are given their ASCII meaning; for str patterns Python also accepts other Unicode digits/letters, so a
    pattern that uses them is only translated for `how` in a context where the caller accepts that (flag unicode_classes)."""
    p = _P(pattern)
    anchored_start = False
    if p.peek() == '^':
        p.take()
        anchored_start = True
    r = p.alt()
    dollar = False
    if p.peek() == '$':
        p.take()
        dollar = True
    if p.peek() is not None:
        raise Unsupported('pattern text after %r' % pattern[:p.i])
    if p.unicode_classes:
        raise Unsupported('\\d/\\w/\\s on str patterns match non-ASCII characters too')
    nl = '(re.opt (str.to_re "\\u{a}"))'
    if how == 'fullmatch':
        return r
    if how == 'match':
        return '(re.++ %s %s)' % (r, nl) if dollar else '(re.++ %s re.all)' % r
    if how == 'search':
        pre = '' if anchored_start else 're.all '
        return '(re.++ %s%s %s)' % (pre, r, nl if dollar else 're.all')
    raise Unsupported(how)
