"""Theory plug-in for the clause-level functions of YPPrologCompiler (head arguments, expressions).

Source terms (Atom, VariableTerm, Functor, NumeralTerm, ListTerm, ListPairTerm of yp_prolog_visitor) are the
constructors of the SMT datatype TA; emitted constructor-call expressions are CE; `self.head_args_by_pos` is
modelled by three components (names, is-None flags, length)."""
import ast
import re

from .core import SV, NONE, OutOfSubset, AND, OR, NOT, EQ, ITE, smt_str
from .exec import Exc
from .theory_compiler import CompilerTheory

TA_CLASSES = {'Atom': 'TAAtom', 'VariableTerm': 'TAVar', 'AnonymousVariableTerm': 'TAVar', 'Functor': 'TAFun',
              'NumeralTerm': 'TANum', 'ListTerm': 'TAListT', 'ListPairTerm': 'TAPair'}


class ClauseTheory(CompilerTheory):
    COMPS = [('cic', 'Int'), ('hp', '(Array Int String)'), ('hpn', '(Array Int Bool)'), ('hplen', 'Int'), ('bvs', 'BVS')]
    NO_TERM_COMPS = True

    def mk_param(self, ex, st, n, sort, sub):
        if sort == 'SS':
            return SV('SS', ex.fresh('(Seq String)', n))
        if sort == 'HasVars':
            return SV('HasVars', None, {'variables': ex.fresh('(Seq String)', n + '_variables')})
        if sort == 'Clause':
            return SV('Clause', None, {'hargs': ex.fresh('TAL', n + '_hargs'), 'body': ex.fresh('Body', n + '_body')})
        if sort == 'PredAst':
            # a Predicate node of the clause AST: its functor is a compound term (name, argument list)
            e = ex.fresh('TA', n)
            st.assume('((_ is TAFun) %s)' % e)
            return SV('PredAst', e)
        if sort in ('TA', 'TAL', 'CE', 'CEL'):
            e = ex.fresh(sort, n)
            if sub:
                st.assume('((_ is %s) %s)' % (sub, e))
            return SV(sort, e)
        return CompilerTheory.mk_param(self, ex, st, n, sort, sub)

    def havoc_sv(self, ex, st, v, hint):
        if v.sort in ('TA', 'TAL', 'CE', 'CEL', 'Code', 'Stmt', 'Body'):
            return SV(v.sort, ex.fresh(v.sort, hint), v.meta)
        if v.sort == 'SIDict':
            return SV('SIDict', ex.fresh('(Array String Int)', hint))
        if v.sort == 'OptStr':
            return SV('OptStr', ex.fresh('String', hint), {'none': ex.fresh('Bool', hint + '_none')})
        if v.sort in ('CSelf', 'HPList', 'Ctx', 'BVStack', 'Clause'):
            return v
        if v.sort == 'SS':
            return SV('SS', ex.fresh('(Seq String)', hint))
        return None

    def isinstance(self, ex, v, cls, st, node):
        if v.sort == 'Stmt':
            m = {'YPCodeForeach': OR('((_ is SForeach) %s)' % v.e, '((_ is SUnify) %s)' % v.e), 'YPCodeBreakableBlock': '((_ is SBlock) %s)' % v.e,
                 'YPCodeBreakBlock': '((_ is SBreak) %s)' % v.e, 'YPCodeAssign': OR('((_ is SAlias) %s)' % v.e, '((_ is SDecl) %s)' % v.e)}
            if cls in m:
                return m[cls]
        if v.sort == 'TA' and cls in TA_CLASSES:
            return '((_ is %s) %s)' % (TA_CLASSES[cls], v.e)
        return CompilerTheory.isinstance(self, ex, v, cls, st, node)

    def attr_read(self, ex, base, attr, st, node):
        b = base.e
        if base.sort == 'TA':
            sel = {'varname': ('TAVar', 'tavname', 'Str'), 'value': ('TAAtom', 'taval', 'Str'), 'num': ('TANum', 'tanum', 'Str'),
                   'args': ('TAFun', 'tafargs', 'TAL'), 'items': ('TAListT', 'taitems', 'TAL'), 'head': ('TAPair', 'tahead', 'TA'),
                   'tail': ('TAPair', 'tatail', 'TA')}
            if attr in sel:
                ctor, fn, srt = sel[attr]
                ex.oblige(st, 'safety.attr.' + attr, '((_ is %s) %s)' % (ctor, b), 'safety')
                return [(st, SV(srt, '(%s %s)' % (fn, b)))]
            if attr == 'name':
                ex.oblige(st, 'safety.attr.name', '((_ is TAFun) %s)' % b, 'safety')
                return [(st, SV('TAFunName', b))]
        if base.sort == 'PredAst' and attr == 'functor':
            return [(st, SV('TA', b))]
        if base.sort == 'Stmt' and attr == 'loop_code':
            ex.oblige(st, 'safety.attr.loop_code', OR('((_ is SForeach) %s)' % b, '((_ is SUnify) %s)' % b), 'safety')
            return [(st, SV('Code', ITE('((_ is SForeach) %s)' % b, '(fc %s)' % b, '(uc %s)' % b)))]
        if base.sort == 'Stmt' and attr == 'body':
            ex.oblige(st, 'safety.attr.body', '((_ is SBlock) %s)' % b, 'safety')
            return [(st, SV('Code', '(bc %s)' % b))]
        if base.sort == 'TAFunName' and attr == 'value':
            return [(st, SV('Str', '(tafname %s)' % b))]
        if base.sort == 'CSelf' and attr == 'head_args_by_pos':
            return [(st, SV('HPList', None))]
        if base.sort == 'CSelf' and attr == 'bound_vars':
            return [(st, SV('BVStack', None))]
        if base.sort == 'CSelf' and attr == 'current_clause':
            return [(st, SV('Clause', None, {}))]
        if base.sort == 'Clause':
            if attr == 'head':
                return [(st, SV('ClauseHead', None, base.meta))]
            if attr == 'body':
                return [(st, SV('Body', base.meta['body']))]
            if attr == 'ctx':
                return [(st, SV('Ctx', None))]
        if base.sort == 'ClauseHead' and attr == 'functor':
            return [(st, SV('HeadFunctor', None, base.meta))]
        if base.sort == 'HeadFunctor':
            if attr == 'args':
                return [(st, SV('TAL', base.meta['hargs']))]
            if attr == 'variables':
                return [(st, SV('SS', '(tavarsl %s)' % base.meta['hargs']))]
        if base.sort == 'HasVars' and attr == 'variables':
            return [(st, SV('SS', base.meta['variables']))]
        if base.sort == 'Body' and attr == 'variables':
            return [(st, SV('SS', '(bodyvars %s)' % b))]
        return CompilerTheory.attr_read(self, ex, base, attr, st, node)

    def attr_write(self, ex, base, attr, v, st, node):
        if base.sort == 'CSelf' and attr == 'head_args_by_pos' and v.sort == 'PyList' and not v.meta['items']:
            st.comp['hplen'] = '0'
            return [(st, None)]
        if base.sort == 'CSelf' and attr == 'current_clause':
            return [(st, None)]        # only used for error positions
        return CompilerTheory.attr_write(self, ex, base, attr, v, st, node)

    def subscript(self, ex, e, base, idx, st):
        if base.sort == 'TAL' and idx.sort == 'Int':
            ex.oblige(st, 'safety.index', AND('(<= 0 %s)' % idx.e, '(< %s (talen %s))' % (idx.e, base.e)), 'safety')
            return [(st, SV('TA', '(tanth %s %s)' % (base.e, idx.e)))]
        if base.sort == 'HPList' and idx.sort == 'Int':
            ex.oblige(st, 'safety.index', AND('(<= 0 %s)' % idx.e, '(< %s %s)' % (idx.e, st.comp['hplen'])), 'safety')
            return [(st, SV('OptStr', '(select %s %s)' % (st.comp['hp'], idx.e), {'none': '(select %s %s)' % (st.comp['hpn'], idx.e)}))]
        if base.sort == 'BVStack' and idx.e == '(- 1)':
            ex.oblige(st, 'safety.bound_vars_not_empty', '((_ is bvpush) %s)' % st.comp['bvs'], 'safety')
            return [(st, SV('SS', '(bvtop %s)' % st.comp['bvs']))]
        if base.sort == 'SIDict' and idx.sort in ('Str', 'OptStr'):
            if idx.sort == 'OptStr':
                ex.oblige(st, 'safety.key_not_none', NOT(idx.meta['none']), 'safety')
            v = '(select %s %s)' % (base.e, idx.e)
            ex.oblige(st, 'safety.key_present', '(>= %s 0)' % v, 'safety')
            return [(st, SV('Int', v))]
        return CompilerTheory.subscript(self, ex, e, base, idx, st)

    def store_subscript(self, ex, node, base, idx, v, st):
        if base.sort == 'HPList' and idx.sort == 'Int':
            ex.oblige(st, 'safety.index', AND('(<= 0 %s)' % idx.e, '(< %s %s)' % (idx.e, st.comp['hplen'])), 'safety')
            if v.sort == 'None':
                st.comp['hpn'] = '(store %s %s true)' % (st.comp['hpn'], idx.e)
                return [(st, None)]
            if v.sort == 'Str':
                st.comp['hpn'] = '(store %s %s false)' % (st.comp['hpn'], idx.e)
                st.comp['hp'] = '(store %s %s %s)' % (st.comp['hp'], idx.e, v.e)
                return [(st, None)]
        if base.sort == 'SIDict' and idx.sort == 'Str' and v.sort == 'Int' and isinstance(node.value, ast.Name):
            st.env[node.value.id] = SV('SIDict', '(store %s %s %s)' % (base.e, idx.e, v.e))
            return [(st, None)]
        return None

    def truthy(self, ex, v):
        if v.sort == 'OptStr':
            return AND(NOT(v.meta['none']), NOT(EQ(v.e, '""')))
        return None

    def is_none(self, ex, other, st):
        if other.sort == 'OptStr':
            return other.meta['none']
        return None

    def equal(self, ex, e, op, a, b, st):
        if a.sort == 'TAL' and b.sort == 'PyList' and not b.meta['items']:
            return '((_ is tanil) %s)' % a.e
        return CompilerTheory.equal(self, ex, e, op, a, b, st)

    def adjust_assign(self, ex, tgt, v, st):
        if isinstance(tgt, ast.Name):
            if v.sort == 'PyDict' and not v.meta.get('items'):
                return SV('SIDict', '((as const (Array String Int)) (- 1))')
            if v.sort == 'PyList' and not v.meta['items']:
                for n in ast.walk(ex.fn):
                    if isinstance(n, ast.Call) and isinstance(n.func, ast.Attribute) and n.func.attr == 'append' \
                            and isinstance(n.func.value, ast.Name) and n.func.value.id == tgt.id:
                        return SV('Code', 'cnil')
        return None

    def apply_method(self, ex, e, base, meth, args, st):
        if base.sort == 'HPList' and meth == 'append' and len(args) == 1:
            k = st.comp['hplen']
            if args[0].sort == 'None':
                st.comp['hpn'] = '(store %s %s true)' % (st.comp['hpn'], k)
            elif args[0].sort == 'Str':
                st.comp['hpn'] = '(store %s %s false)' % (st.comp['hpn'], k)
                st.comp['hp'] = '(store %s %s %s)' % (st.comp['hp'], k, args[0].e)
            else:
                raise OutOfSubset('append of %s to head_args_by_pos' % args[0].sort, e)
            st.comp['hplen'] = '(+ %s 1)' % k
            return [(st, NONE)]
        if base.sort == 'BVStack' and meth == 'append' and len(args) == 1 and args[0].sort == 'SS':
            st.comp['bvs'] = '(bvpush %s %s)' % (args[0].e, st.comp['bvs'])
            return [(st, NONE)]
        if base.sort == 'BVStack' and meth == 'pop' and not args:
            ex.oblige(st, 'safety.bound_vars_not_empty', '((_ is bvpush) %s)' % st.comp['bvs'], 'safety')
            st.comp['bvs'] = '(bvrest %s)' % st.comp['bvs']
            return [(st, NONE)]
        if base.sort == 'SIDict' and meth == 'setdefault' and len(args) == 2 and args[0].sort == 'Str' and args[1].sort == 'Int' \
                and isinstance(e.func.value, ast.Name):
            cur = '(select %s %s)' % (base.e, args[0].e)
            st.env[e.func.value.id] = SV('SIDict', ITE('(>= %s 0)' % cur, base.e, '(store %s %s %s)' % (base.e, args[0].e, args[1].e)))
            return [(st, NONE)]
        if base.sort == 'Code' and meth == 'append' and len(args) == 1 and args[0].sort == 'Stmt' and isinstance(e.func.value, ast.Name):
            st.env[e.func.value.id] = SV('Code', '(capp %s (ccons %s cnil))' % (base.e, args[0].e))
            return [(st, NONE)]
        return CompilerTheory.apply_method(self, ex, e, base, meth, args, st)

    def apply_name(self, ex, e, name, args, st):
        so = [a.sort for a in args]
        if name == 'max' and so == ['Int', 'Int']:
            return [(st, SV('Int', ITE('(>= %s %s)' % (args[0].e, args[1].e), args[0].e, args[1].e)))]
        if name == 'len' and so == ['TAL']:
            return [(st, SV('Int', '(talen %s)' % args[0].e))]
        if name == 'YPCodeVar' and len(args) == 1:
            a = args[0]
            if a.sort == 'Str':
                if a.e == smt_str('ATOM_NIL'):
                    return [(st, SV('CE', 'CENil'))]
                return [(st, SV('CE', '(CEVar %s)' % a.e))]
            if a.sort == 'TA':
                # str(VariableTerm) is its name
                ex.oblige(st, 'safety.codevar_of_variable', '((_ is TAVar) %s)' % a.e, 'safety')
                return [(st, SV('CE', '(CEVar (tavname %s))' % a.e))]
        if name == 'YPCodeExpr' and so == ['Str']:
            return [(st, SV('CEStr', args[0].e))]
        if name == 'YPCodeValue' and so == ['Str']:
            return [(st, SV('CE', '(CEVal %s)' % args[0].e))]
        if name == 'YPCodeList' and len(args) == 1:
            a = args[0]
            if a.sort == 'CEL':
                return [(st, a)]
            if a.sort == 'PyList' and all(i.sort == 'CE' for i in a.meta['items']):
                out = 'cenil'
                for i in reversed(a.meta['items']):
                    out = '(cecons %s %s)' % (i.e, out)
                return [(st, SV('CEL', out))]
        if name == 'YPCodeCall' and len(args) == 2 and args[0].sort == 'Str' and args[1].sort == 'PyList':
            fn = args[0].e
            items = args[1].meta['items']
            isrt = [i.sort for i in items]
            if fn == smt_str('atom') and isrt == ['CEStr']:
                return [(st, SV('CE', '(CEAtom %s)' % items[0].e))]
            if fn == smt_str('functor') and isrt == ['CEStr', 'CEL']:
                return [(st, SV('CE', '(CEFun %s %s)' % (items[0].e, items[1].e)))]
            if fn == smt_str('makelist') and isrt == ['CEL']:
                return [(st, SV('CE', '(CEMakeList %s)' % items[0].e))]
            if fn == smt_str('listpair') and isrt == ['CE', 'CE']:
                return [(st, SV('CE', '(CEPair %s %s)' % (items[0].e, items[1].e)))]
            if fn == smt_str('unify') and isrt == ['CE', 'CE']:
                ex.oblige(st, 'safety.unify_target_is_variable', '((_ is CEVar) %s)' % items[0].e, 'safety')
                return [(st, SV('UnifyCall', None, {'var': '(cevname %s)' % items[0].e, 'expr': items[1].e}))]
            if fn == smt_str('variable') and not items:
                return [(st, SV('VariableCall', None))]
            if fn == smt_str('query') and isrt == ['CEStr', 'CEL']:
                return [(st, SV('QueryCall', None, {'name': items[0].e, 'args': items[1].e}))]
        if name == 'YPCodeForeach' and len(args) == 2 and args[0].sort == 'UnifyCall':
            code = args[1]
            if code.sort == 'PyList' and not code.meta['items']:
                code = SV('Code', 'cnil')
            if code.sort == 'Code':
                return [(st, SV('Stmt', '(SUnify %s %s %s)' % (args[0].meta['var'], args[0].meta['expr'], code.e)))]
        if name == 'YPCodeForeach' and len(args) == 2 and args[0].sort == 'QueryCall':
            code = args[1]
            if code.sort == 'PyList' and not code.meta['items']:
                code = SV('Code', 'cnil')
            if code.sort == 'Code':
                return [(st, SV('Stmt', '(SQuery %s %s %s)' % (args[0].meta['name'], args[0].meta['args'], code.e)))]
        if name == 'YPCodeAssign' and len(args) == 2 and args[0].sort == 'CE':
            if args[1].sort == 'CE':
                ex.oblige(st, 'safety.assign_between_variables', AND('((_ is CEVar) %s)' % args[0].e, '((_ is CEVar) %s)' % args[1].e), 'safety')
                return [(st, SV('Stmt', '(SAlias (cevname %s) (cevname %s))' % (args[0].e, args[1].e)))]
            if args[1].sort == 'VariableCall':
                return [(st, SV('Stmt', '(SDecl (cevname %s))' % args[0].e))]
        return CompilerTheory.apply_name(self, ex, e, name, args, st)

    def ev_ListComp(self, ex, e, st):
        g = e.generators[0] if len(e.generators) == 1 else None
        if g is not None and isinstance(g.target, ast.Name) and isinstance(e.elt, ast.Name) and e.elt.id == g.target.id and len(g.ifs) == 1:
            t = g.ifs[0]
            v = g.target.id
            # [v for v in X if v not in Y]
            if isinstance(t, ast.Compare) and len(t.ops) == 1 and isinstance(t.ops[0], ast.NotIn) and isinstance(t.left, ast.Name) and t.left.id == v:
                outs = []
                for st2, xs in ex.eval(g.iter, st):
                    for st3, ys in ex.eval(t.comparators[0], st2):
                        if isinstance(xs, Exc) or isinstance(ys, Exc) or xs.sort != 'SS' or ys.sort != 'SS':
                            raise OutOfSubset('filter comprehension', e)
                        outs.append((st3, SV('SS', '(sminus %s %s)' % (xs.e, ys.e))))
                return outs
            # [v for v in self.head_args_by_pos if v != None]
            if isinstance(t, ast.Compare) and len(t.ops) == 1 and isinstance(t.ops[0], (ast.NotEq, ast.IsNot)) \
                    and isinstance(t.comparators[0], ast.Constant) and t.comparators[0].value is None:
                outs = []
                for st2, xs in ex.eval(g.iter, st):
                    if isinstance(xs, Exc) or xs.sort != 'HPList':
                        raise OutOfSubset('filter comprehension', e)
                    outs.append((st2, SV('SS', '(hpnames %s %s %s)' % (st2.comp['hp'], st2.comp['hpn'], st2.comp['hplen']))))
                return outs
        if g is None or g.ifs or not isinstance(g.target, ast.Name) or not isinstance(e.elt, ast.Call):
            return None
        f = e.elt.func
        if not (isinstance(f, ast.Attribute) and isinstance(f.value, ast.Name) and f.value.id == 'self' and e.elt.args
                and isinstance(e.elt.args[0], ast.Name) and e.elt.args[0].id == g.target.id):
            return None
        cls = ex.qualname.split('.')[0]
        c = ex.reg.get('%s.%s.%s' % (ex.modname, cls, f.attr))
        if c is None or not c.maps:
            return None
        outs = []
        for st2, lst in ex.eval(g.iter, st):
            if isinstance(lst, Exc):
                outs.append((st2, lst))
                continue
            if lst.sort == 'SS' and c.ghost.get('maps_ss'):
                outs.append((st2, SV('Code', '(%s %s)' % (c.ghost['maps_ss'], lst.e))))
                continue
            if lst.sort != 'TAL':
                raise OutOfSubset('comprehension over %s' % lst.sort, e)
            for st3, rest in ex.eval_args(e.elt.args[1:], st2):
                if isinstance(rest, Exc):
                    outs.append((st3, rest))
                    continue
                ok = st3.fork()
                # the callee's further postconditions, element by element (stated with the list-level spec function of the contract);
                # an omitted optional argument has the contract's default
                extra = list(rest)
                for pn, ps in c.params[2 + len(extra):]:
                    d = ps.split(':', 2)
                    if ps.startswith('Opt:') and len(d) > 2 and re.fullmatch(r'-?\d+', d[2]):
                        extra.append(SV('Int', d[2]))
                for tmpl in c.ghost.get('maps_ensures', []):
                    f = tmpl.replace('{l}', lst.e)
                    for i_, a_ in enumerate(extra):
                        f = f.replace('{arg%d}' % (i_ + 1), a_.e)
                    if '{arg' in f:
                        raise OutOfSubset('lifted postcondition needs an argument that is not given', e)
                    ok.assume(f)
                outs.append((ok, SV('CEL', '(%s %s)' % (c.maps, lst.e))))
                for cls_, cond in c.raises.items():
                    outs.append((st3.fork().tag('comprehension.raises:' + cls_), Exc(cls_)))
        return outs

    def st_For(self, ex, s, v, st, k):
        if v.sort == 'Code' and isinstance(s.target, ast.Name):
            n, spec = ex.loop_spec(s)
            if spec is None:
                raise OutOfSubset('loop %d of %s has no invariant in the sidecar contract' % (n, ex.qualname), s)
            ex._for_range(s, n, spec, SV('Int', '(clen %s)' % v.e), st, k, elem=lambda kx: SV('Stmt', '(cnth %s %s)' % (v.e, kx)))
            return True
        return False

    def contract_views(self, ex, a, st):
        if a.sort == 'HeadFunctor':
            return {'variables': '(tavarsl %s)' % a.meta['hargs']}
        if a.sort == 'Body':
            return {'variables': '(bodyvars %s)' % a.e}
        return None

    def coerce(self, ex, a, want, st):
        if want == 'Any':
            return a
        if want == 'HasVars' and a.sort in ('HeadFunctor', 'Body'):
            return SV('HasVars', None, {'variables': self.contract_views(ex, a, st)['variables']})
        return CompilerTheory.coerce(self, ex, a, want, st)

    def binop(self, ex, e, a, b, st):
        if isinstance(e.op, ast.Add) and a.sort == 'SS' and b.sort == 'SS':
            return SV('SS', '(seq.++ %s %s)' % (a.e, b.e))
        return CompilerTheory.binop(self, ex, e, a, b, st)

    def call_name_ast(self, ex, e, st):
        # list(dict.fromkeys(X)): order-preserving de-duplication (A-PY-DICTORDER)
        if isinstance(e.func, ast.Name) and e.func.id == 'list' and len(e.args) == 1 and isinstance(e.args[0], ast.Call) \
                and ast.unparse(e.args[0].func) == 'dict.fromkeys' and len(e.args[0].args) == 1:
            outs = []
            for st2, v in ex.eval(e.args[0].args[0], st):
                if isinstance(v, Exc) or v.sort != 'SS':
                    raise OutOfSubset('dict.fromkeys over %s' % getattr(v, 'sort', v), e)
                outs.append((st2, SV('SS', '(sdedupe %s)' % v.e)))
            return outs
        return None

    def mk_ret(self, ex, sort, e, st):
        if sort == 'SS':
            return SV('SS', e)
        if sort in ('CE', 'CEL', 'TA', 'TAL'):
            return SV(sort, e)
        return CompilerTheory.mk_ret(self, ex, sort, e, st)



class AstVarsTheory(ClauseTheory):
    """the `variables` properties of the AST classes: `self` is a Body / TA value of the class's constructor; a `.variables`
    read on a sub-object is that object's property, i.e. (modularly) the spec function of spec/astvars.smt2"""

    def mk_param(self, ex, st, n, sort, sub):
        if sort == 'Body':
            e = ex.fresh('Body', n)
            if sub:
                st.assume('((_ is %s) %s)' % (sub, e))
            return SV('Body', e)
        return ClauseTheory.mk_param(self, ex, st, n, sort, sub)

    def attr_read(self, ex, base, attr, st, node):
        b = base.e
        if base.sort == 'TA' and attr == 'variables':
            return [(st, SV('SS', '(tavars %s)' % b))]
        if base.sort == 'Body' and attr == 'functor':
            ex.oblige(st, 'safety.attr.functor', OR('((_ is BPred) %s)' % b, '((_ is BCutIf) %s)' % b), 'safety')
            return [(st, SV('TA', '(functorobj %s)' % b))]
        if base.sort == 'Body' and attr == 'pred':
            ex.oblige(st, 'safety.attr.pred', '((_ is BNeg) %s)' % b, 'safety')
            return [(st, SV('Body', '(np %s)' % b))]
        return ClauseTheory.attr_read(self, ex, base, attr, st, node)

    def coerce(self, ex, a, want, st):
        if want == 'SS' and a.sort == 'PyList' and all(i.sort == 'Str' for i in a.meta['items']):
            if not a.meta['items']:
                return SV('SS', '(as seq.empty SS)')
            units = ['(seq.unit %s)' % i.e for i in a.meta['items']]
            return SV('SS', units[0] if len(units) == 1 else '(seq.++ %s)' % ' '.join(units))
        return ClauseTheory.coerce(self, ex, a, want, st)

    def call_name_ast(self, ex, e, st):
        # functools.reduce(lambda x, y: x + y, [v.variables for v in L], []): the concatenation, in order, of the elements'
        # variable lists (A-EXT-REDUCE; + on lists is associative with unit []) - by definition tavarsl(L); the two defining
        # equations are emitted as an obligation
        if ast.unparse(e.func) == 'functools.reduce' and len(e.args) == 3 and ast.unparse(e.args[0]) == 'lambda x, y: x + y' \
                and isinstance(e.args[1], ast.ListComp) and ast.unparse(e.args[2]) == '[]':
            lc = e.args[1]
            g = lc.generators[0] if len(lc.generators) == 1 else None
            if g is not None and not g.ifs and isinstance(g.target, ast.Name) and ast.unparse(lc.elt) == g.target.id + '.variables':
                outs = []
                for st2, lst in ex.eval(g.iter, st):
                    if isinstance(lst, Exc) or lst.sort != 'TAL':
                        raise OutOfSubset('reduce over %s' % getattr(lst, 'sort', lst), e)
                    h, t = ex.fresh('TA', 'lift_h'), ex.fresh('TAL', 'lift_t')
                    ex.oblige(st2.fork().tag('lift'), 'reduce.concat.lift',
                              AND(EQ('(tavarsl tanil)', '(as seq.empty SS)'),
                                  EQ('(tavarsl (tacons %s %s))' % (h, t), '(seq.++ (tavars %s) (tavarsl %s))' % (h, t))), 'post')
                    outs.append((st2, SV('SS', '(tavarsl %s)' % lst.e)))
                return outs
        return ClauseTheory.call_name_ast(self, ex, e, st)


class ProgramTheory(ClauseTheory):
    """compile_program / compile_function: the program dictionary as the sequence of its keys in insertion order (values are the
    clause lists, consumed lazily by the code generator: not evaluated here), YPCodeFunction as FN, the function list as Seq FN"""

    def mk_param(self, ex, st, n, sort, sub):
        if sort == 'PK':
            return SV('PK', ex.fresh('PK', n))
        if sort == 'ProgDict':
            return SV('ProgDict', ex.fresh('(Seq PK)', n))
        if sort == 'Any':
            return SV('Any', None)
        return ClauseTheory.mk_param(self, ex, st, n, sort, sub)

    def mk_ret(self, ex, sort, e, st):
        if sort in ('FN', 'FNS'):
            return SV(sort, e)
        return ClauseTheory.mk_ret(self, ex, sort, e, st)

    def smt_sort(self, sort):
        return {'FNS': '(Seq FN)', 'ProgDict': '(Seq PK)'}.get(sort) or ClauseTheory.smt_sort(self, sort)

    def havoc_sv(self, ex, st, v, hint):
        if v.sort == 'FNS':
            return SV('FNS', ex.fresh('(Seq FN)', hint))
        if v.sort in ('ProgDict', 'Any', 'PK'):
            return v
        return ClauseTheory.havoc_sv(self, ex, st, v, hint)

    def subscript(self, ex, e, base, idx, st):
        if base.sort == 'PK' and idx.sort == 'Int' and idx.e in ('0', '1'):
            return [(st, SV('Str', '(pkname %s)' % base.e) if idx.e == '0' else SV('Int', '(pkarity %s)' % base.e))]
        return ClauseTheory.subscript(self, ex, e, base, idx, st)

    def adjust_assign(self, ex, tgt, v, st):
        if isinstance(tgt, ast.Name) and tgt.id == 'funcs' and v.sort == 'PyList' and not v.meta['items']:
            return SV('FNS', '(as seq.empty (Seq FN))')
        return ClauseTheory.adjust_assign(self, ex, tgt, v, st)

    def apply_method(self, ex, e, base, meth, args, st):
        if base.sort == 'FNS' and meth == 'append' and len(args) == 1 and args[0].sort == 'FN' and isinstance(e.func.value, ast.Name):
            st.env[e.func.value.id] = SV('FNS', '(seq.++ %s (seq.unit %s))' % (base.e, args[0].e))
            return [(st, NONE)]
        if base.sort == 'ProgDict' and meth == 'items' and not args:
            return [(st, SV('ProgItems', base.e))]
        return ClauseTheory.apply_method(self, ex, e, base, meth, args, st)

    def apply_name(self, ex, e, name, args, st):
        if name == 'YPCodeFunction' and len(args) == 3 and args[0].sort == 'Str' and args[1].sort == 'SS':
            return [(st, SV('FN', '(mkFN %s %s)' % (args[0].e, args[1].e)))]
        if name == 'YPCodeProgram' and len(args) == 1 and args[0].sort == 'FNS':
            return [(st, SV('FNS', args[0].e))]
        return ClauseTheory.apply_name(self, ex, e, name, args, st)

    def call_name_ast(self, ex, e, st):
        # itertools.chain.from_iterable(<generator expression>): a lazy iterator - nothing of the generator expression runs here
        if ast.unparse(e.func) == 'itertools.chain.from_iterable' and len(e.args) == 1 and isinstance(e.args[0], ast.GeneratorExp):
            return [(st, SV('Any', None))]
        return ClauseTheory.call_name_ast(self, ex, e, st)

    def ev_ListComp(self, ex, e, st):
        # [self.M(i) for i in range(N)] with M a pure contract function and F = ghost range_map the recursive spec of the list:
        # F(0) = [], F(k+1) = F(k) ++ [M(k)] (obligation), value F(N)
        g = e.generators[0] if len(e.generators) == 1 else None
        F = ex.c.ghost.get('range_map')
        if F and g is not None and not g.ifs and isinstance(g.target, ast.Name) and isinstance(g.iter, ast.Call) \
                and ast.unparse(g.iter.func) == 'range' and len(g.iter.args) == 1 and isinstance(e.elt, ast.Call) \
                and isinstance(e.elt.func, ast.Attribute) and ast.unparse(e.elt.func.value) == 'self' \
                and len(e.elt.args) == 1 and ast.unparse(e.elt.args[0]) == g.target.id:
            cls = ex.qualname.split('.')[0]
            c = ex.reg.get('%s.%s.%s' % (ex.modname, cls, e.elt.func.attr))
            if c is None or c.kind != 'pure' or c.value is None or c.ret != 'Str':
                return None
            outs = []
            for st2, nv in ex.eval(g.iter.args[0], st):
                if isinstance(nv, Exc) or nv.sort != 'Int':
                    raise OutOfSubset('range comprehension bound', e)
                k = ex.fresh('Int', 'lift_k')
                ex.oblige(st2.fork().tag('lift'), 'comprehension.range_map.lift',
                          AND(EQ('(%s 0)' % F, '(as seq.empty SS)'),
                              '(=> (>= %s 0) (= (%s (+ %s 1)) (seq.++ (%s %s) (seq.unit %s))))' % (k, F, k, F, k, c.value.replace('{i}', k))), 'post')
                outs.append((st2, SV('SS', '(%s %s)' % (F, nv.e))))
            return outs
        return ClauseTheory.ev_ListComp(self, ex, e, st)

    def st_For(self, ex, s, v, st, k):
        if v.sort == 'ProgItems' and isinstance(s.target, ast.Tuple) and len(s.target.elts) == 2 \
                and all(isinstance(t, ast.Name) for t in s.target.elts):
            n, spec = ex.loop_spec(s)
            if spec is None:
                raise OutOfSubset('loop %d of %s has no invariant in the sidecar contract' % (n, ex.qualname), s)
            # index-based: the i-th item is (key_i, clauses_i); tuple target bound through a synthetic single name
            tgt = s.target
            s2 = ast.For(target=ast.Name(id='__item', ctx=ast.Store()), iter=s.iter,
                         body=[ast.Assign(targets=[tgt], value=ast.Name(id='__item', ctx=ast.Load()), lineno=s.lineno)] + s.body, orelse=[])
            ast.copy_location(s2, s)
            ast.fix_missing_locations(s2)
            ex.loop_ord[id(s2)] = n
            ex._for_range(s2, n, spec, SV('Int', '(seq.len %s)' % v.e), st, k,
                          elem=lambda kx: SV('Tuple', None, {'items': [SV('PK', '(seq.nth %s %s)' % (v.e, kx)), SV('Any', None)]}))
            return True
        return ClauseTheory.st_For(self, ex, s, v, st, k)
