"""Theory plug-in for engine.py's YP class: fact database heap, evaluation context, nondeterministic
generators (DESIGN 2.3, 2.4).

Heap components (all SMT expressions in State.comp):
  pstore    (Array Key Int)         _predicates_store: key -> clause-list reference, -1 = absent
  lists     (Array Int (Seq Int))   contents of every Python list of Answer objects, by reference
  avalues   (Array Int TList)       Answer.values, by Answer reference
  nextref   Int                     allocation counter for lists and Answer objects
  published (Array Int Bool)        ghost: list references that have ever been stored in pstore
  nextv     Int                     allocation counter for Variable()
  ectx      (Array String Int)      eval_context: key -> function id, -1 = absent
  blacklist (Array String Bool)     eval_blacklist membership
  vmaps     (Array Int (Array Int Int))   dicts Variable -> Variable used by _copy_term, by reference
  owned     (Array Int Bool)        ghost: iterator handles created by this activation
  hcnt      (Array Int Int)         ghost: number of answers a handle has delivered so far
"""
import ast
import re

from .core import SV, NONE, TRUE, FALSE, OutOfSubset, AND, OR, NOT, EQ, ITE, IMP, smt_str
from .exec import Exc, Konts
from .theory import Theory

COMPS = [('pstore', '(Array Key Int)'), ('lists', 'Heap'), ('avalues', '(Array Int TList)'), ('nextref', 'Int'),
         ('published', '(Array Int Bool)'), ('nextv', 'Int'), ('ectx', '(Array String Int)'),
         ('blacklist', '(Array String Bool)'), ('vmaps', '(Array Int (Array Int Int))'),
         ('owned', '(Array Int Bool)'), ('hcnt', '(Array Int Int)'), ('rlimit', 'Int'), ('sdone', '(Array Int Bool)')]

REF_SORTS = ('FList', 'Answer', 'VarMap')


class EngineTheory(Theory):
    COMPS = COMPS

    # ------------------------------------------------------------------ parameters / entry
    def accept_varargs(self, ex):
        return True

    def accept_keywords(self, ex, e):
        return all(k.arg in ('arity',) for k in e.keywords)

    def mk_param(self, ex, st, n, sort, sub):
        if sort == 'YP':
            return SV('YP', None)
        if sort in REF_SORTS or sort in ('Fn', 'OptFn', 'GenHandle'):
            e = ex.fresh('Int', n)
            if sort == 'GenHandle':
                return SV('Iter', e, {'nondet': True})
            return SV(sort, e)
        if sort == 'Any':
            return SV('Any', ex.fresh('Int', n))
        if sort == 'SObj':
            return SV('SObj', ex.fresh('Int', n))
        if sort == 'OptInt':
            return SV('OptInt', ex.fresh('Int', n), {'none': ex.fresh('Bool', n + '_is_none')})
        if sort == 'UserFn':
            return SV('Fn', ex.fresh('Int', n), {'user': True})
        return None

    def on_entry(self, ex, st):
        # allocation invariants of the heap
        st.assume('(>= %s 0)' % st.comp['nextref'])
        st.assume('(>= %s 0)' % st.comp['nextv'])
        st.assume('(forall ((r Int)) (! (=> (>= r %s) (not (select %s r))) :pattern ((select %s r))))'
                  % (st.comp['nextref'], st.comp['published'], st.comp['published']))
        st.assume('(forall ((k Key)) (! (< (select %s k) %s) :pattern ((select %s k))))'
                  % (st.comp['pstore'], st.comp['nextref'], st.comp['pstore']))
        st.assume('(forall ((k Key)) (! (=> (>= (select %s k) 0) (select %s (select %s k))) :pattern ((select %s k))))'
                  % (st.comp['pstore'], st.comp['published'], st.comp['pstore'], st.comp['pstore']))
        # handles created before this activation are not owned by it
        st.assume('(forall ((h Int)) (! (not (select %s h)) :pattern ((select %s h))))' % (st.comp['owned'], st.comp['owned']))
        for p, v in list(st.env.items()):
            if v.sort in ('FList', 'Answer') :
                st.assume('(and (<= 0 %s) (< %s %s))' % (v.e, v.e, st.comp['nextref']))
        st.ghost['active'] = ()
        st.ghost['trace'] = ()

    def havoc_sv(self, ex, st, v, hint):
        if v.sort in REF_SORTS or v.sort in ('Fn', 'OptFn', 'Any'):
            return SV(v.sort, ex.fresh('Int', hint), v.meta)
        if v.sort in ('YP', 'PStore', 'ECtx', 'Blacklist'):
            return v
        if v.sort == 'PyList' and not v.meta['items']:
            return v
        return None

    def loop_havoc(self, ex, st, n):
        self._heap_invariants(ex, st)

    def _heap_invariants(self, ex, st):
        st.assume('(forall ((r Int)) (! (=> (>= r %s) (not (select %s r))) :pattern ((select %s r))))'
                  % (st.comp['nextref'], st.comp['published'], st.comp['published']))

    # ------------------------------------------------------------------ environment step at a yield
    def env_step(self, ex, st):
        """Between a yield and the resumption the consumer may call any engine API function. Rely: the API
        never changes a published list in place (that is the ownership obligation proved on every mutation
        site of engine.py), never changes an Answer object, and allocates upwards."""
        old = dict(st.comp)
        for n in ('pstore', 'lists', 'avalues', 'nextref', 'published', 'nextv', 'ectx', 'vmaps', 'hcnt'):
            st.comp[n] = ex.fresh(dict(ex.comps)[n], n)
        st.assume('(>= %s %s)' % (st.comp['nextref'], old['nextref']))
        st.assume('(>= %s %s)' % (st.comp['nextv'], old['nextv']))
        st.assume('(forall ((r Int)) (! (=> (select %s r) (and (select %s r) (= (select %s r) (select %s r)))) :pattern ((select %s r))))'
                  % (old['published'], st.comp['published'], st.comp['lists'], old['lists'], st.comp['lists']))
        st.assume('(forall ((a Int)) (! (=> (< a %s) (= (select %s a) (select %s a))) :pattern ((select %s a))))'
                  % (old['nextref'], st.comp['avalues'], old['avalues'], st.comp['avalues']))
        # lists this activation holds privately (unpublished, below the old counter) are not reachable by anyone else
        st.assume('(forall ((r Int)) (! (=> (and (< r %s) (not (select %s r))) (and (not (select %s r)) (= (select %s r) (select %s r)))) :pattern ((select %s r)) :pattern ((select %s r))))'
                  % (old['nextref'], old['published'], st.comp['published'], st.comp['lists'], old['lists'], st.comp['lists'], st.comp['published']))
        st.assume('(forall ((r Int)) (! (=> (>= r %s) (not (select %s r))) :pattern ((select %s r))))'
                  % (st.comp['nextref'], st.comp['published'], st.comp['published']))
        st.assume('(forall ((k Key)) (! (< (select %s k) %s) :pattern ((select %s k))))'
                  % (st.comp['pstore'], st.comp['nextref'], st.comp['pstore']))
        st.assume('(forall ((k Key)) (! (=> (>= (select %s k) 0) (select %s (select %s k))) :pattern ((select %s k))))'
                  % (st.comp['pstore'], st.comp['published'], st.comp['pstore'], st.comp['pstore']))
        # answer counters of our own handles are untouched
        st.assume('(forall ((h Int)) (! (=> (select %s h) (= (select %s h) (select %s h))) :pattern ((select %s h))))'
                  % (st.comp['owned'], st.comp['hcnt'], old['hcnt'], st.comp['hcnt']))

    # ------------------------------------------------------------------ values
    def global_name(self, ex, name, st):
        if name == 'sys':
            return SV('Module', 'sys')
        fns = ('builtin_eq', 'unify', 'get_value', 'to_python')
        if name in fns:
            self._nparams_fact(st, 'fn_%s' % name, name, False)
            return SV('Fn', 'fn_%s' % name, {'name': name})
        return None

    def _nparams_fact(self, st, term, qname, bound):
        """len(inspect.signature(f).parameters) of a function of the real module, read off its def (A-EXT-INSPECT);
        bound methods do not count self; *args / defaults are counted as inspect does (one parameter each)"""
        from . import core
        fd = core.module('engine').functions.get(qname)
        if fd is None:
            return
        a = fd.args
        n = len(a.posonlyargs) + len(a.args) + len(a.kwonlyargs) + (1 if a.vararg else 0) + (1 if a.kwarg else 0)
        if bound:
            n -= 1
        st.assume('(= (nparams %s) %d)' % (term, n))

    def truthy(self, ex, v):
        if v.sort == 'OptFn':
            return NOT(EQ(v.e, '(- 1)'))
        if v.sort == 'Any' and v.meta.get('yielded'):
            # C20 (i): a value yielded by a predicate iterator must never decide a branch
            from .core import Obligation
            ex.obls.append(Obligation('%s.%s.interface.yielded_value_not_inspected[-]' % (ex.modname, ex.qualname), [], 'false', 'post'))
            return ex.fresh('Bool', 'inspected')
        return None

    def is_none(self, ex, other, st):
        if other.sort == 'OptFn':
            return EQ(other.e, '(- 1)')
        if other.sort in REF_SORTS or other.sort in ('Fn', 'YP', 'Iter'):
            return 'false'
        if other.sort == 'OptInt':
            return other.meta['none']
        if other.sort == 'Any':
            return '(any_none %s)' % other.e
        return None

    def coerce(self, ex, a, want, st):
        if want == 'TList' and a.sort == 'PyList':
            if all(i.sort == 'Term' for i in a.meta['items']):
                out = 'nil'
                for i in reversed(a.meta['items']):
                    out = '(cons %s %s)' % (i.e, out)
                return SV('TList', out)
        if want == 'FList' and a.sort == 'PyList' and not a.meta['items']:
            return self.new_list(ex, st, '(as seq.empty FSeq)')
        if want == 'Term' and a.sort in ('Int', 'Str'):
            return None
        if want == 'OptInt' and a.sort == 'Int':
            return SV('OptInt', a.e, {'none': 'false'})
        if want == 'OptInt' and a.sort == 'None':
            return SV('OptInt', '0', {'none': 'true'})
        if want == 'Any':
            return a
        return None

    def new_list(self, ex, st, content):
        r = ex.fresh('Int', 'list')
        st.assume(EQ(r, st.comp['nextref']))
        st.comp['nextref'] = '(+ %s 1)' % r
        st.comp['lists'] = '(store %s %s %s)' % (st.comp['lists'], r, content)
        return SV('FList', r)

    def mk_ret(self, ex, sort, e, st):
        if sort in REF_SORTS or sort in ('Fn', 'OptFn', 'Any'):
            return SV(sort, e)
        return None

    def smt_sort(self, sort):
        if sort in REF_SORTS or sort in ('Fn', 'OptFn', 'Any'):
            return 'Int'
        return None

    # ------------------------------------------------------------------ attributes
    def attr_read(self, ex, base, attr, st, node):
        if base.sort == 'YP':
            m = {'_predicates_store': 'PStore', 'eval_context': 'ECtx', 'eval_blacklist': 'Blacklist'}
            if attr in m:
                return [(st, SV(m[attr], None))]
            if attr == 'ATOM_NIL':
                return [(st, SV('Term', '(TAtom "[]")'))]
            if attr == 'ATOM_DOT':
                return [(st, SV('Str', '"."'))]
            from . import core
            if ('YP.' + attr) in core.module('engine').functions:
                self._nparams_fact(st, '(fn_method "%s")' % attr, 'YP.' + attr, True)
                return [(st, SV('Fn', '(fn_method "%s")' % attr, {'name': 'YP.' + attr}))]
        if base.sort == 'Answer' and attr == 'values':
            return [(st, SV('TList', '(select %s %s)' % (st.comp['avalues'], base.e)))]
        if base.sort == 'SObj' and attr == '_done':
            return [(st, SV('Bool', '(select %s %s)' % (st.comp['sdone'], base.e)))]
        return None

    def attr_write(self, ex, base, attr, v, st, node):
        if base.sort == 'SObj' and attr == '_done' and v.sort == 'Bool':
            st.comp['sdone'] = '(store %s %s %s)' % (st.comp['sdone'], base.e, v.e)
            return [(st, None)]
        if base.sort == 'YP' and attr == '_predicates_store' and v.sort == 'PyDict' and not v.meta.get('items'):
            st.comp['pstore'] = '((as const (Array Key Int)) (- 1))'
            return [(st, None)]
        return None

    # ------------------------------------------------------------------ dict / list operations
    def key_of(self, ex, v):
        if v.sort == 'Tuple' and len(v.meta['items']) == 2 and v.meta['items'][0].sort == 'Str' and v.meta['items'][1].sort == 'Int':
            return '(mkKey %s %s)' % (v.meta['items'][0].e, v.meta['items'][1].e)
        if v.sort == 'Tuple' and len(v.meta['items']) == 2 and v.meta['items'][0].sort == 'Term':
            # a term object used as predicate name: not a string key -> TypeError-like misuse
            return None
        return None

    def subscript(self, ex, e, base, idx, st):
        if base.sort == 'PStore':
            key = self.key_of(ex, idx)
            if key is None:
                ex.oblige(st.fork().tag('key'), 'safety.predicate_key_is_name_arity', 'false', 'safety')
                return []
            r = '(select %s %s)' % (st.comp['pstore'], key)
            a = st.fork().assume('(>= %s 0)' % r).tag('present')
            b = st.assume('(< %s 0)' % r).tag('absent')
            return [(a, SV('FList', r)), (b, Exc('KeyError'))]
        if base.sort == 'FList' and idx.sort == 'Int':
            seq = '(select %s %s)' % (st.comp['lists'], base.e)
            ex.oblige(st, 'safety.index', AND('(<= 0 %s)' % idx.e, '(< %s (seq.len %s))' % (idx.e, seq)), 'safety')
            return [(st, SV('Answer', '(seq.nth %s %s)' % (seq, idx.e)))]
        if base.sort == 'VarMap' and idx.sort == 'Term':
            m = '(select (select %s %s) (vid %s))' % (st.comp['vmaps'], base.e, idx.e)
            ex.oblige(st, 'safety.mapping_key_present', AND('((_ is TVar) %s)' % idx.e, '(>= %s 0)' % m), 'safety')
            return [(st, SV('Term', '(TVar %s)' % m))]
        return None

    def store_subscript(self, ex, node, base, idx, v, st):
        if base.sort == 'PStore':
            key = self.key_of(ex, idx)
            if key is None:
                ex.oblige(st.fork().tag('key'), 'safety.predicate_key_is_name_arity', 'false', 'safety')
                return []
            if v.sort == 'PyList' and not v.meta['items']:
                v = self.new_list(ex, st, '(as seq.empty FSeq)')
            if v.sort != 'FList':
                raise OutOfSubset('storing %s in the predicate store' % v.sort, node)
            st.comp['pstore'] = '(store %s %s %s)' % (st.comp['pstore'], key, v.e)
            st.comp['published'] = '(store %s %s true)' % (st.comp['published'], v.e)
            return [(st, None)]
        if base.sort == 'ECtx' and idx.sort == 'Str' and v.sort in ('Fn', 'OptFn'):
            st.comp['ectx'] = '(store %s %s %s)' % (st.comp['ectx'], idx.e, v.e)
            return [(st, None)]
        if base.sort == 'FList':
            # in-place element assignment: ownership obligation
            ex.oblige(st, 'ownership.mutated_list_is_unpublished', NOT('(select %s %s)' % (st.comp['published'], base.e)), 'frame')
            raise OutOfSubset('element assignment on a clause list', node)
        if base.sort == 'VarMap' and idx.sort == 'Term' and v.sort == 'Term':
            ex.oblige(st, 'safety.mapping_key_is_variable', AND('((_ is TVar) %s)' % idx.e, '((_ is TVar) %s)' % v.e), 'safety')
            m = '(select %s %s)' % (st.comp['vmaps'], base.e)
            st.comp['vmaps'] = '(store %s %s (store %s (vid %s) (vid %s)))' % (st.comp['vmaps'], base.e, m, idx.e, v.e)
            return [(st, None)]
        return None

    def st_Delete(self, ex, s, st):
        for t in s.targets:
            if isinstance(t, ast.Subscript):
                outs = []
                for st2, base in ex.eval(t.value, st):
                    if isinstance(base, Exc):
                        outs.append((st2, base))
                        continue
                    if base.sort == 'FList':
                        ex.oblige(st2, 'ownership.mutated_list_is_unpublished',
                                  NOT('(select %s %s)' % (st2.comp['published'], base.e)), 'frame')
                        for st3, idx in ex.eval(t.slice, st2):
                            seq = '(select %s %s)' % (st3.comp['lists'], base.e)
                            ex.oblige(st3, 'safety.index', AND('(<= 0 %s)' % idx.e, '(< %s (seq.len %s))' % (idx.e, seq)), 'safety')
                            new = '(seq.++ (seq.extract %s 0 %s) (seq.extract %s (+ %s 1) (- (seq.len %s) (+ %s 1))))' % (
                                seq, idx.e, seq, idx.e, seq, idx.e)
                            st3.comp['lists'] = '(store %s %s %s)' % (st3.comp['lists'], base.e, new)
                            outs.append((st3, None))
                    else:
                        raise OutOfSubset('del on %s' % base.sort, s)
                return outs
        return None

    def slice(self, ex, e, base, st):
        sl = e.slice
        if base.sort == 'FList' and sl.lower is None and sl.upper is None and sl.step is None:
            return [(st, self.new_list(ex, st, '(select %s %s)' % (st.comp['lists'], base.e)))]
        return None

    def binop(self, ex, e, a, b, st):
        if isinstance(e.op, ast.Add):
            def seq_of(x):
                if x.sort == 'FList':
                    return '(select %s %s)' % (st.comp['lists'], x.e)
                if x.sort == 'PyList' and all(i.sort == 'Answer' for i in x.meta['items']):
                    if not x.meta['items']:
                        return '(as seq.empty FSeq)'
                    parts = ['(seq.unit %s)' % i.e for i in x.meta['items']]
                    return parts[0] if len(parts) == 1 else '(seq.++ %s)' % ' '.join(parts)
                return None
            if 'FList' in (a.sort, b.sort):
                sa, sb = seq_of(a), seq_of(b)
                if sa is not None and sb is not None:
                    return self.new_list(ex, st, '(seq.++ %s %s)' % (sa, sb))
            ta = self.coerce(ex, a, 'TList', st) if a.sort == 'PyList' else a
            tb = self.coerce(ex, b, 'TList', st) if b.sort == 'PyList' else b
            if ta is not None and tb is not None and ta.sort == 'TList' and tb.sort == 'TList':
                return SV('TList', '(tappend %s %s)' % (ta.e, tb.e))
        return None

    def compare(self, ex, e, op, a, b, st):
        if isinstance(op, (ast.In, ast.NotIn)):
            r = None
            if b.sort == 'FList' and a.sort == 'Answer':
                r = '(seq.contains (select %s %s) (seq.unit %s))' % (st.comp['lists'], b.e, a.e)
                from . import core
                if core.module('engine').defines('Answer', ('__eq__', '__ne__')):
                    # list membership is `x is y or x == y`: with a user-defined equality on Answer an object that is not in
                    # the list may still be reported as a member - only identity membership => True is known
                    m = ex.fresh('Bool', 'member_by_eq')
                    st.assume(IMP(r, m))
                    r = m
            elif b.sort == 'Blacklist' and a.sort == 'Str':
                r = '(select %s %s)' % (st.comp['blacklist'], a.e)
            elif b.sort == 'VarMap' and a.sort == 'Term':
                ex.oblige(st, 'safety.mapping_key_is_variable', '((_ is TVar) %s)' % a.e, 'safety')
                r = '(>= (select (select %s %s) (vid %s)) 0)' % (st.comp['vmaps'], b.e, a.e)
            if r is None:
                return None
            return NOT(r) if isinstance(op, ast.NotIn) else r
        if a.sort == 'OptInt' and b.sort == 'Int':
            sym = {ast.Lt: '<', ast.LtE: '<=', ast.Gt: '>', ast.GtE: '>='}.get(type(op))
            if sym:
                ex.oblige(st, 'safety.compare_none', NOT(a.meta['none']), 'safety')
                return '(%s %s %s)' % (sym, a.e, b.e)
        return None

    def equal(self, ex, e, op, a, b, st):
        if a.sort == b.sort == 'Answer' and not isinstance(op, (ast.Is, ast.IsNot)):
            from . import core
            if core.module('engine').defines('Answer', ('__eq__', '__ne__')):
                return ex.fresh('Bool', 'user_eq')      # user-defined equality: meaning unknown
        if a.sort == b.sort and a.sort in ('Answer', 'FList', 'Fn'):
            return EQ(a.e, b.e)
        if {a.sort, b.sort} == {'Fn', 'OptFn'} or (a.sort == b.sort == 'OptFn'):
            return EQ(a.e, b.e)
        return None

    def isinstance(self, ex, v, cls, st, node):
        if v.sort in ('Int', 'Str') and cls in ('IUnifiable', 'Atom', 'Variable', 'Functor'):
            return 'false'
        return None

    # ------------------------------------------------------------------ calls
    def apply_name(self, ex, e, name, args, st):
        so = [a.sort for a in args]
        if name == 'Answer' and len(args) == 1:
            v = args[0]
            if v.sort == 'PyList':
                v = self.coerce(ex, v, 'TList', st)
            if v is not None and v.sort == 'TList':
                a = ex.fresh('Int', 'answer')
                st.assume(EQ(a, st.comp['nextref']))
                st.comp['nextref'] = '(+ %s 1)' % a
                st.comp['avalues'] = '(store %s %s %s)' % (st.comp['avalues'], a, v.e)
                return [(st, SV('Answer', a))]
        if name == 'Variable' and not args:
            v = ex.fresh('Int', 'newvar')
            st.assume(EQ(v, st.comp['nextv']))
            st.comp['nextv'] = '(+ %s 1)' % v
            # a new Variable object is unbound
            st.assume(NOT('(isbound %s %s)' % (st.comp['store'], v)))
            return [(st, SV('Term', '(TVar %s)' % v))]
        if name == 'list' and len(args) == 1 and args[0].sort == 'TList':
            return [(st, args[0])]
        if name == 'compile' and len(args) == 3:
            # external: compiles text, may raise (SyntaxError, ValueError, ...)
            return [(st, SV('CodeObj', None)), (st.fork().tag('compile.raises'), Exc('UserException'))]
        if name == 'exec' and len(args) == 2 and args[0].sort == 'CodeObj' and args[1].sort == 'Dict' and isinstance(e.args[1], ast.Name):
            # external (A-EXT-EXEC): runs the code with the dict as globals: the dict contents afterwards are arbitrary;
            # the engine state is reachable only through the API functions in that dict (same rely as at a yield)
            ok = st.fork().tag('exec.ok')
            ok.env[e.args[1].id] = SV('Dict', ex.fresh('(Array String Int)', 'new_context'))
            bad = st.fork().tag('exec.raises')
            return [(ok, NONE), (bad, Exc('UserException'))]
        if name == 'YPException':
            return [(st, SV('Exc', 'YPException'))]
        if name == 'hasattr' and len(args) == 2:
            return [(st, SV('Bool', 'true' if args[0].sort == 'Iter' else ex.fresh('Bool', 'hasattr')))]
        return None

    def call_name_ast(self, ex, e, st):
        # len(inspect.signature(func).parameters): number of positional parameters (A-EXT-INSPECT)
        if isinstance(e.func, ast.Name) and e.func.id == 'len' and len(e.args) == 1:
            a = e.args[0]
            if isinstance(a, ast.Attribute) and a.attr == 'parameters' and isinstance(a.value, ast.Call) \
                    and ast.unparse(a.value.func) == 'inspect.signature' and len(a.value.args) == 1:
                outs = []
                for st2, f in ex.eval(a.value.args[0], st):
                    if isinstance(f, Exc):
                        outs.append((st2, f))
                    else:
                        outs.append((st2, SV('Int', '(nparams %s)' % f.e)))
                return outs
        # functools.reduce(lambda x, y: BODY, reversed(l), INIT) is the right fold of l (A-EXT-REDUCE: reduce applies the
        # function left to right over the reversed list).  Against the recursive spec function F named by the contract
        # (ghost fold_spec): base INIT = F(nil), step BODY[x := F(t), y := h] = F(cons h t); then the value is F(l).
        if ast.unparse(e.func) == 'functools.reduce' and len(e.args) == 3 and isinstance(e.args[0], ast.Lambda) \
                and len(e.args[0].args.args) == 2 and isinstance(e.args[1], ast.Call) and ast.unparse(e.args[1].func) == 'reversed' \
                and len(e.args[1].args) == 1 and isinstance(e.args[1].args[0], ast.Name) and ex.c.ghost.get('fold_spec'):
            spec = ex.c.ghost['fold_spec']
            lv = st.env.get(e.args[1].args[0].id)
            if lv is None or lv.sort != 'TList':
                return None
            inits = ex.eval(e.args[2], st)
            if len(inits) != 1 or isinstance(inits[0][1], Exc) or inits[0][1].sort != 'Term':
                return None
            ex.oblige(st.fork().tag('fold.base'), 'fold.base', EQ(inits[0][1].e, '(%s nil)' % spec), 'post')
            h, t = ex.fresh('Term', 'fold_h'), ex.fresh('TList', 'fold_t')
            xn, yn = [a.arg for a in e.args[0].args.args]
            stb = st.fork().tag('fold.step')
            stb.env = dict(stb.env)
            stb.env[xn] = SV('Term', '(%s %s)' % (spec, t))
            stb.env[yn] = SV('Term', h)
            for st3, v in ex.eval(e.args[0].body, stb):
                if isinstance(v, Exc) or v.sort != 'Term':
                    ex.oblige(st3, 'fold.step', 'false', 'post')
                else:
                    ex.oblige(st3, 'fold.step', EQ(v.e, '(%s (cons %s %s))' % (spec, h, t)), 'post')
            return [(st, SV('Term', '(%s %s)' % (spec, lv.e)))]
        return None

    def ev_Dict(self, ex, e, st):
        return None

    def apply_method(self, ex, e, base, meth, args, st):
        if base.sort == 'PStore' and meth == 'get' and len(args) == 2:
            key = self.key_of(ex, args[0])
            if key is None:
                ex.oblige(st.fork().tag('key'), 'safety.predicate_key_is_name_arity', 'false', 'safety')
                return []
            r = '(select %s %s)' % (st.comp['pstore'], key)
            a = st.fork().assume('(>= %s 0)' % r).tag('present')
            b = st.assume('(< %s 0)' % r).tag('absent')
            d = args[1]
            if d.sort == 'PyList' and not d.meta['items']:
                d = self.new_list(ex, b, '(as seq.empty FSeq)')
            return [(a, SV('FList', r)), (b, d)]
        if base.sort == 'ECtx' and meth == 'get' and args and args[0].sort == 'Str':
            r = '(select %s %s)' % (st.comp['ectx'], args[0].e)
            if len(args) == 1:
                return [(st, SV('OptFn', r))]
            d = args[1]
            if d.sort in ('OptFn', 'Fn'):
                return [(st, SV('OptFn', ITE('(>= %s 0)' % r, r, d.e)))]
            if d.sort == 'None':
                return [(st, SV('OptFn', r))]
        if base.sort == 'ECtx' and meth == 'copy' and not args:
            return [(st, SV('Dict', st.comp['ectx']))]
        if base.sort == 'Dict' and meth == 'items' and not args:
            return [(st, SV('DictItems', base.e))]
        if base.sort == 'FList' and meth in ('append', 'insert'):
            ex.oblige(st, 'ownership.mutated_list_is_unpublished', NOT('(select %s %s)' % (st.comp['published'], base.e)), 'frame')
            seq = '(select %s %s)' % (st.comp['lists'], base.e)
            if meth == 'append' and len(args) == 1 and args[0].sort in ('Answer', 'Any'):
                st.comp['lists'] = '(store %s %s (seq.++ %s (seq.unit %s)))' % (st.comp['lists'], base.e, seq, args[0].e)
                return [(st, NONE)]
            if meth == 'insert' and len(args) == 2 and args[0].e == '0' and args[1].sort == 'Answer':
                st.comp['lists'] = '(store %s %s (seq.++ (seq.unit %s) %s))' % (st.comp['lists'], base.e, args[1].e, seq)
                return [(st, NONE)]
        if base.sort == 'PyList' and meth == 'append' and not base.meta['items'] and isinstance(e.func.value, ast.Name) \
                and len(args) == 1 and args[0].sort in ('Answer', 'Any'):
            # the empty literal turns out to be a clause list
            lst = self.new_list(ex, st, '(seq.unit %s)' % args[0].e)
            st.env[e.func.value.id] = lst
            return [(st, NONE)]
        if base.sort == 'YP':
            cname = 'engine.YP.%s' % meth
            if cname in ex.reg:
                return ex.apply_contract(e, ex.reg[cname], [base] + args, st)
            r = ex.try_inline(e, 'YP.%s' % meth, [base] + args, st)
            if r is not None:
                return r
            raise OutOfSubset('no contract for %s' % cname, e)
        if base.sort == 'Answer':
            cname = 'engine.Answer.%s' % meth
            if cname in ex.reg:
                return ex.apply_contract(e, ex.reg[cname], [base] + args, st)
        if base.sort == 'Iter' and base.meta.get('nondet') and meth == 'close' and not args:
            self.nd_close(ex, st, base)
            # the generator behind the handle may run user code (a Python predicate reached through yield from): its finalisation
            # can raise; the generator is finished either way
            return [(st, NONE), (st.fork().tag('close.raises'), Exc('UserException'))]
        if base.sort == 'Module' and base.e == 'sys':
            if meth == 'getrecursionlimit' and not args:
                return [(st, SV('Int', st.comp['rlimit']))]
            if meth == 'setrecursionlimit' and len(args) == 1 and args[0].sort == 'Int':
                # CPython raises (ValueError/RecursionError) for a limit that is too low: the limit is then unchanged
                # CPython: raises RecursionError iff the new limit is not above the current depth (ghost rdepth)
                ok = st.fork().assume('(> %s rdepth)' % args[0].e).tag('setlimit.ok')
                ok.comp['rlimit'] = args[0].e
                bad = st.assume('(<= %s rdepth)' % args[0].e).tag('setlimit.raises')
                return [(ok, NONE), (bad, Exc('RecursionError'))]
        return None

    def call_value(self, ex, e, st):
        """call of a function VALUE held in a local: `function(*args)` in YP.query, `projection_function(x)`"""
        f = e.func
        if isinstance(f, ast.Name) and f.id in st.env and st.env[f.id].sort in ('Fn', 'OptFn'):
            fv = st.env[f.id]
            if len(e.args) == 1 and isinstance(e.args[0], ast.Starred):
                outs = []
                for st2, a in ex.eval(e.args[0].value, st):
                    if isinstance(a, Exc):
                        outs.append((st2, a))
                        continue
                    if a.sort == 'PyList':
                        a = self.coerce(ex, a, 'TList', st2)
                    if a is None or a.sort != 'TList':
                        raise OutOfSubset('starred argument', e)
                    if fv.sort == 'OptFn':
                        ex.oblige(st2, 'safety.call_of_none', NOT(EQ(fv.e, '(- 1)')), 'safety')
                    h = self.new_nd_handle(ex, st2, '(AFun %s %s)' % (fv.e, a.e), 'call')
                    outs.append((st2, h))
                return outs
            if st.env[f.id].meta.get('user'):
                # an arbitrary user-supplied callable: may raise anything, returns an opaque value
                outs = []
                for st2, args in ex.eval_args(e.args, st):
                    if isinstance(args, Exc):
                        outs.append((st2, args))
                        continue
                    okp = st2.fork().tag('user.returns')
                    outs.append((okp, SV('Any', ex.fresh('Int', 'userval'))))
                    outs.append((st2.fork().tag('user.raises'), Exc('UserException')))
                    outs.append((st2.fork().tag('user.raises_recursion'), Exc('RecursionError')))
                return outs
        return None

    # ------------------------------------------------------------------ contracts with heap effects
    def apply_contract(self, ex, e, c, args, exm, st):
        if c.kind == 'gen':
            h = self.new_nd_handle(ex, st, ex.fmt_c(c.answers, exm) if c.answers else '(AOther 0)', c.name.split('.')[-1])
            return [(st, h)]
        if c.kind == 'iterfn-fx':
            # an iterator-returning function with database effects (asserta, assertz, retractall)
            for n in c.modifies:
                st.comp[n] = ex.fresh(dict(ex.comps)[n], n)
                exm[n] = st.comp[n]
            for en in c.ensures:
                st.assume(ex.fmt_c(en, exm))
            self._heap_invariants(ex, st)
            h = ex.new_handle(st, ex.fmt_c(c.spec, exm), c.name.split('.')[-1])
            exm['result'] = h.e
            for t in c.ghost.get('handle_facts', []):
                st.assume(ex.fmt_c(t, exm))
            outs = [(st, h)]
            for r in c.raises:
                outs.append((st.fork().tag('raises:' + r), Exc(r)))
            return outs
        return None

    # ------------------------------------------------------------------ nondeterministic handles
    def on_new_handle(self, ex, st, h):
        st.comp['owned'] = '(store %s %s true)' % (st.comp['owned'], h)
        st.comp['hcnt'] = '(store %s %s 0)' % (st.comp['hcnt'], h)

    def after_call(self, ex, st):
        self._heap_invariants(ex, st)

    def adjust_assign(self, ex, tgt, v, st):
        # `x = []` where x is later appended to with Answer objects is a clause list
        if v.sort == 'PyList' and not v.meta['items'] and isinstance(tgt, ast.Name):
            for n in ast.walk(ex.fn):
                if isinstance(n, ast.Call) and isinstance(n.func, ast.Attribute) and n.func.attr in ('append', 'insert') \
                        and isinstance(n.func.value, ast.Name) and n.func.value.id == tgt.id:
                    return self.new_list(ex, st, '(as seq.empty FSeq)')
        if v.sort == 'PyDict' and not v.meta.get('items') and isinstance(tgt, ast.Name):
            r = ex.fresh('Int', 'dict')
            st.assume(EQ(r, st.comp['nextref']))
            st.comp['nextref'] = '(+ %s 1)' % r
            st.comp['vmaps'] = '(store %s %s emptymap)' % (st.comp['vmaps'], r)
            return SV('VarMap', r)
        return None

    def new_nd_handle(self, ex, st, ans, hint):
        h = ex.fresh('Int', hint)
        st.assume('(>= %s %s)' % (h, st.comp['nexth']))
        if ans is not None:
            st.assume(EQ('(h_ans %s)' % h, ans))
        nh = ex.fresh('Int', 'nexth')
        st.assume('(> %s %s)' % (nh, h))
        st.comp['nexth'] = nh
        st.comp['ist'] = '(store %s %s FRESH)' % (st.comp['ist'], h)
        self.on_new_handle(ex, st, h)
        return SV('Iter', h, {'nondet': True})

    def nd_step_effects(self, ex, st):
        """running a nondeterministic iterator may execute arbitrary predicate code of this engine: bindings
        change, the database may change through the API (same rely as env_step)."""
        st.comp['store'] = ex.fresh('Store', 'store')
        st.comp['shadow'] = ex.fresh('(Array Int Term)', 'shadow')
        self.env_step(ex, st)

    def nd_next(self, ex, st, h):
        outs = []
        cnt0 = ex.fresh('Int', 'cnt')
        st.assume(EQ(cnt0, '(select %s %s)' % (st.comp['hcnt'], h.e)))
        a = st.fork().tag('answer')
        self.nd_step_effects(ex, a)
        a.comp['ist'] = '(store %s %s SUSP)' % (a.comp['ist'], h.e)
        a.comp['hcnt'] = '(store %s %s (+ %s 1))' % (a.comp['hcnt'], h.e, cnt0)
        outs.append((a, SV('Any', ex.fresh('Int', 'yielded'), {'yielded': True})))
        b = st.fork().tag('stop')
        self.nd_step_effects(ex, b)
        b.comp['ist'] = '(store %s %s DONE)' % (b.comp['ist'], h.e)
        b.comp['hcnt'] = '(store %s %s %s)' % (b.comp['hcnt'], h.e, cnt0)
        outs.append((b, Exc('StopIteration')))
        c = st.fork().tag('raises')
        self.nd_step_effects(ex, c)
        c.comp['ist'] = '(store %s %s DONE)' % (c.comp['ist'], h.e)
        c.comp['hcnt'] = '(store %s %s %s)' % (c.comp['hcnt'], h.e, cnt0)
        outs.append((c, Exc('UserException')))
        d = c.fork()
        d.trace[-1] = 'raises_recursion'
        outs.append((d, Exc('RecursionError')))
        return outs

    def nd_close(self, ex, st, h):
        self.nd_step_effects(ex, st)
        st.comp['ist'] = '(store %s %s DONE)' % (st.comp['ist'], h.e)

    def q_formula(self, ex, st, active):
        """every owned handle other than the active ones is not suspended"""
        neq = ' '.join('(not (= h %s))' % a for a in active)
        return ('(forall ((h Int)) (! (=> (select %s h) (and (<= 0 h) (< h %s) (=> (and true %s) (not (= (select %s h) SUSP))))) '
                ':pattern ((select %s h)) :pattern ((select %s h))))' % (
                    st.comp['owned'], st.comp['nexth'], neq, st.comp['ist'], st.comp['ist'], st.comp['owned']))

    def with_active(self, st, h):
        st.ghost['active'] = tuple(st.ghost.get('active', ())) + (h.e,)
        return st

    def without_active(self, st, h):
        st.ghost['active'] = tuple(a for a in st.ghost.get('active', ()) if a != h.e)
        return st

    # ------------------------------------------------------------------ loops
    def st_For(self, ex, s, v, st, k):
        if v.sort == 'Iter' and v.meta.get('nondet'):
            self.for_nondet(ex, s, v, st, k)
            return True
        if v.sort == 'FList':
            self.for_flist(ex, s, v, st, k)
            return True
        if v.sort == 'PyList' and not v.meta['items']:
            k.normal(st)
            return True
        if v.sort == 'DictItems':
            self.for_dict_items(ex, s, v, st, k)
            return True
        return False

    def for_dict_items(self, ex, s, d, st, k):
        """for key, value in <dict>.items(): every present key exactly once (order irrelevant to the invariant).
        Ghost: the set P of processed keys."""
        n, spec = ex.loop_spec(s)
        if spec is None:
            raise OutOfSubset('loop %d of %s has no invariant in the sidecar contract' % (n, ex.qualname), s)
        if not (isinstance(s.target, ast.Tuple) and len(s.target.elts) == 2 and all(isinstance(t, ast.Name) for t in s.target.elts)):
            raise OutOfSubset('for target over items()', s)
        kn, vn = s.target.elts[0].id, s.target.elts[1].id
        mods = ex.assigned_names(s.body) | {kn, vn}
        P0 = '((as const (Array String Bool)) false)'

        def check(st2, P, tag):
            for j, inv in enumerate(spec.inv):
                ex.oblige(st2.fork().tag(tag), 'loop%d.inv%d' % (n, j), ex.fmt(inv, st2, {'P': P, 'dict': d.e}), 'inv')

        check(st, P0, 'loop%d.init' % n)
        sti = st.fork().tag('loop%d.iter' % n)
        ex.havoc_comp(sti)
        ex.havoc_locals(sti, mods)
        self._heap_invariants(ex, sti)
        P = ex.fresh('(Array String Bool)', 'P')
        for inv in spec.inv:
            sti.assume(ex.fmt(inv, sti, {'P': P, 'dict': d.e}))
        key = ex.fresh('String', 'k')
        sti.assume('(>= (select %s %s) 0)' % (d.e, key))
        sti.assume(NOT('(select %s %s)' % (P, key)))
        sti.env[kn] = SV('Str', key)
        sti.env[vn] = SV('Fn', '(select %s %s)' % (d.e, key))
        P2 = '(store %s %s true)' % (P, key)
        kb = k.with_(normal=lambda st2: check(st2, P2, 'preserve'), cont=lambda st2: check(st2, P2, 'preserve'),
                     brk=lambda st2: k.normal(st2.tag('loop%d.break' % n)))
        ex.exec_block(s.body, sti, kb)
        ste = st.fork().tag('loop%d.exit' % n)
        ex.havoc_comp(ste)
        ex.havoc_locals(ste, mods)
        self._heap_invariants(ex, ste)
        Pe = ex.fresh('(Array String Bool)', 'P')
        for inv in spec.inv:
            ste.assume(ex.fmt(inv, ste, {'P': Pe, 'dict': d.e}))
        ste.assume('(forall ((x String)) (! (=> (>= (select %s x) 0) (select %s x)) :pattern ((select %s x))))' % (d.e, Pe, Pe))
        ste.assume('(forall ((x String)) (! (=> (select %s x) (>= (select %s x) 0)) :pattern ((select %s x))))' % (Pe, d.e, Pe))
        k.normal(ste)

    def loop_invs(self, ex, spec):
        return list(spec.inv) if spec is not None else []

    def for_flist(self, ex, s, lst, st, k):
        """for x in <clause list>: index-based iteration (len and item re-read from the heap every time)"""
        n, spec = ex.loop_spec(s)
        if not isinstance(s.target, ast.Name):
            raise OutOfSubset('for target', s)
        is_gen = ex.c.kind == 'gen'
        if spec is None and not is_gen:
            raise OutOfSubset('loop %d of %s has no invariant in the sidecar contract' % (n, ex.qualname), s)
        invs = self.loop_invs(ex, spec)
        var = s.target.id
        mods = ex.assigned_names(s.body) | {var}
        st.ghost['loop%d_pre_store' % n] = st.comp['store']
        st.ghost['loop%d_list' % n] = lst.e
        for cn, _ in ex.comps:
            st.ghost['loop%d_pre_%s' % (n, cn)] = st.comp[cn]
        active = tuple(st.ghost.get('active', ()))

        def check(st2, kexpr, tag):
            exm = {'k': kexpr, 'it': lst.e}
            for j, inv in enumerate(invs):
                ex.oblige(st2.fork().tag(tag), 'loop%d.inv%d' % (n, j), ex.fmt(inv, st2, exm), 'inv')
            if is_gen:
                ex.oblige(st2.fork().tag(tag), 'loop%d.discipline' % n, self.q_formula(ex, st2, active), 'inv')

        def assume(st2, kexpr):
            exm = {'k': kexpr, 'it': lst.e}
            for inv in invs:
                st2.assume(ex.fmt(inv, st2, exm))
            if is_gen:
                st2.assume(self.q_formula(ex, st2, active))

        check(st, '0', 'loop%d.init' % n)
        sti = st.fork().tag('loop%d.iter' % n)
        ex.havoc_comp(sti)
        ex.havoc_locals(sti, mods)
        self._heap_invariants(ex, sti)
        kk = ex.fresh('Int', 'k')
        sti.assume('(<= 0 %s)' % kk)
        assume(sti, kk)
        seq = '(select %s %s)' % (sti.comp['lists'], lst.e)
        sti.assume('(< %s (seq.len %s))' % (kk, seq))
        sti.env[var] = SV('Answer', '(seq.nth %s %s)' % (seq, kk))
        sti.ghost['k%d' % n] = kk

        def preserve(st2):
            if st2.flags.get('closing') and any(isinstance(x, (ast.Yield, ast.YieldFrom)) for y in s.body for x in ast.walk(y)):
                ex.oblige(st2.fork().tag('preserve'), 'close.loop_continues_to_a_yield_after_GeneratorExit', 'false', 'safety')
            check(st2, '(+ %s 1)' % kk, 'preserve')

        kb = k.with_(normal=preserve, cont=preserve, brk=lambda st2: k.normal(st2.tag('loop%d.break' % n)))
        ex.exec_block(s.body, sti, kb)
        ste = st.fork().tag('loop%d.exit' % n)
        ex.havoc_comp(ste)
        ex.havoc_locals(ste, mods)
        self._heap_invariants(ex, ste)
        ke = ex.fresh('Int', 'k')
        ste.assume('(<= 0 %s)' % ke)
        assume(ste, ke)
        ste.assume('(>= %s (seq.len (select %s %s)))' % (ke, ste.comp['lists'], lst.e))
        ste.ghost['k%d' % n] = ke
        ste.ghost['loop%d_exhausted' % n] = 'true'
        k.normal(ste)

    def for_nondet(self, ex, s, h, st, k):
        """for x in <nondeterministic iterator>: the iterator is owned by the loop; leaving the loop in any
        way drops and thereby finalises it (ownership rule (i), A-REFCOUNT)."""
        n, spec = ex.loop_spec(s)
        invs = self.loop_invs(ex, spec)
        is_gen = ex.c.kind == 'gen'
        mods = ex.assigned_names(s.body)
        outer_active = tuple(st.ghost.get('active', ()))
        active = outer_active + (h.e,)
        st.ghost['loop%d_it' % n] = h.e
        for cn, _ in ex.comps:
            st.ghost['loop%d_pre_%s' % (n, cn)] = st.comp[cn]

        def check(st2, tag):
            for j, inv in enumerate(invs):
                ex.oblige(st2.fork().tag(tag), 'loop%d.inv%d' % (n, j), ex.fmt(inv, st2, {'it': h.e}), 'inv')
            if is_gen:
                ex.oblige(st2.fork().tag(tag), 'loop%d.discipline' % n, self.q_formula(ex, st2, active), 'inv')

        def assume(st2):
            for inv in invs:
                st2.assume(ex.fmt(inv, st2, {'it': h.e}))
            if is_gen:
                st2.assume(self.q_formula(ex, st2, active))

        check(st, 'loop%d.init' % n)
        sth = st.fork().tag('loop%d.iter' % n)
        ex.havoc_comp(sth)
        ex.havoc_locals(sth, mods)
        self._heap_invariants(ex, sth)
        sth.assume('(select %s %s)' % (sth.comp['owned'], h.e))
        assume(sth)
        sth.ghost['active'] = active

        # the loop owns (and on exit finalises) its iterator only if nothing else references it: an
        # iterator that is held in a variable or was passed in stays suspended when the loop is left
        loop_owns = not isinstance(s.iter, ast.Name)

        def drop(st2):
            if loop_owns:
                self.nd_close(ex, st2, h)
            st2.ghost['active'] = outer_active
            return st2

        for st2, out in self.nd_next(ex, sth, h):
            if isinstance(out, Exc) and out.cls == 'StopIteration':
                st2.ghost['active'] = outer_active
                st2.trace = [t for t in st2.trace if t != 'loop%d.iter' % n]
                st2.ghost['loop%d_exhausted' % n] = 'true'
                k.normal(st2.tag('loop%d.exit' % n))
                continue
            if isinstance(out, Exc):
                st2.ghost['active'] = outer_active
                k.exc(st2, out)
                continue
            for st3, r in ex.assign(s.target, out, st2):
                kb = Konts(normal=lambda st4: check(st4, 'preserve'), cont=lambda st4: check(st4, 'preserve'),
                           brk=lambda st4: k.normal(drop(st4).tag('loop%d.break' % n)),
                           ret=lambda st4, v: k.ret(drop(st4), v),
                           exc=lambda st4, e: k.exc(drop(st4), e))
                ex.exec_block(s.body, st3, kb)

    # ------------------------------------------------------------------ generators
    def do_yield(self, ex, y, st, k):
        c = ex.c
        if c.kind != 'gen':
            raise OutOfSubset('yield in a %s' % c.kind, y)
        yn = ex.yield_ord[id(y)]
        st = st.tag('yield%d' % yn)
        if st.flags.get('closing'):
            ex.oblige(st, 'close.generator_ignored_GeneratorExit', 'false', 'safety')
            return
        active = tuple(st.ghost.get('active', ()))
        ex.oblige(st, 'yield.discipline', self.q_formula(ex, st, active), 'post')
        mx = c.ghost.get('max_yields')
        if mx is not None and st.yields >= mx:
            ex.oblige(st, 'yield.at_most_%d' % mx, 'false', 'safety')
            return
        exm = {'__active0': active[-1] if active else '(- 1)', '__nactive': str(len(active)), '__yields': str(st.yields)}
        for j, t in enumerate(c.yields or []):
            ex.oblige(st, 'yield.ok%d' % j, ex.fmt(t, st, exm), 'post')
        st.yields += 1
        st.ghost['trace'] = tuple(st.ghost.get('trace', ())) + (('yield', ''),)
        ex.after_yield(st, k)

    def do_yield_from(self, ex, y, st, k):
        c = ex.c
        if c.kind != 'gen':
            raise OutOfSubset('yield from in a %s' % c.kind, y)
        yn = ex.yield_ord[id(y)]
        for st2, h in ex.eval(y.value, st):
            if isinstance(h, Exc):
                k.exc(st2, h)
                continue
            if h.sort != 'Iter':
                raise OutOfSubset('yield from %s' % h.sort, y)
            st2 = st2.tag('yieldfrom%d' % yn)
            active = tuple(st2.ghost.get('active', ()))
            ans = '(h_ans %s)' % h.e if h.meta.get('nondet') else '(ASemidet (h_res %s))' % h.e
            segs = c.ghost.get('segments')
            if segs is not None:
                i = sum(1 for kind, _ in st2.ghost.get('trace', ()) if kind == 'from')
                if i >= len(segs):
                    ex.oblige(st2, 'yieldfrom.unexpected_segment', 'false', 'post')
                else:
                    ex.oblige(st2, 'yieldfrom.segment%d' % i, AND(ex.fmt(segs[i][1], st2), EQ(ans, ex.fmt(segs[i][0], st2))), 'post')
            st2.ghost['trace'] = tuple(st2.ghost.get('trace', ())) + (('from', ans),)
            # while delegating, every answer of h is a yield of ours: the discipline must hold there
            ex.oblige(st2, 'yieldfrom.discipline', self.q_formula(ex, st2, active + (h.e,)), 'post')
            # after any number of answers: effects of the delegate and of the consumer
            def fin(st3, tag):
                st3 = st3.fork().tag(tag)
                ex.havoc_comp(st3, names=[n for n, _ in ex.comps if n not in ('owned',)])
                self._heap_invariants(ex, st3)
                # our own handles other than the delegate keep their state; the delegate is finished
                st3.assume('(forall ((x Int)) (! (=> (and (select %s x) (not (= x %s))) (= (select %s x) (select %s x))) :pattern ((select %s x))))'
                           % (st3.comp['owned'], h.e, st3.comp['ist'], st2.comp['ist'], st3.comp['ist']))
                st3.assume(EQ('(select %s %s)' % (st3.comp['ist'], h.e), 'DONE'))
                st3.ghost['resume_store'] = st3.comp['store']
                return st3
            st2.yields += 0
            k.normal(fin(st2, 'exhausted'))
            stc = fin(st2, 'close')
            stc.flags = dict(stc.flags)
            stc.flags['closing'] = True
            k.exc(stc, Exc('GeneratorExit'))
            k.exc(fin(st2, 'throw'), Exc('Thrown'))
            k.exc(fin(st2, 'raises'), Exc('UserException'))
            k.exc(fin(st2, 'raises_recursion'), Exc('RecursionError'))

    def gen_exit(self, ex, st, how):
        c = ex.c
        st = st.fork().tag('exit:' + how)
        ex.oblige(st, 'exit.all_iterators_finalised', self.q_formula(ex, st, ()), 'post')
        if how == 'end':
            exm = {'__yields': str(st.yields)}
            for j, t in enumerate(c.exit or []):
                try:
                    goal = ex.fmt(t, st, exm)
                except OutOfSubset:
                    # the template mentions a loop counter that does not exist on this path: the function
                    # ended without going through that loop
                    goal = 'false'
                ex.oblige(st, 'exit.ok%d' % j, goal, 'post')
            segs = c.ghost.get('segments')
            if segs is not None:
                nrec = sum(1 for kind, _ in st.ghost.get('trace', ()) if kind == 'from')
                if any(kind == 'yield' for kind, _ in st.ghost.get('trace', ())):
                    ex.oblige(st, 'exit.trace_has_no_direct_yield', 'false', 'post')
                # every expected segment that was not delegated to must have a false condition now
                for j in range(nrec, len(segs)):
                    ex.oblige(st, 'exit.segment%d_not_due' % j, NOT(ex.fmt(segs[j][1], st)), 'post')

    def match_trace(self, rec, exp):
        if not exp:
            return 'true' if not rec else 'false'
        (a, cnd), rest = exp[0], exp[1:]
        take = AND(cnd, EQ(rec[0], a), self.match_trace(rec[1:], rest)) if rec else 'false'
        skip = AND(NOT(cnd), self.match_trace(rec, rest))
        return OR(take, skip)

    def on_raise(self, ex, st, exc):
        for j, t in enumerate(ex.c.ghost.get('exc_ensures', [])):
            ex.oblige(st.fork().tag('raise:' + exc.cls), 'raises.ensures%d' % j, ex.fmt(t, st), 'post')
        if ex.is_gen and ex.c.kind == 'gen':
            st = st.fork().tag('exit:raise:' + exc.cls)
            ex.oblige(st, 'exit.all_iterators_finalised', self.q_formula(ex, st, ()), 'post')

    # ------------------------------------------------------------------ comprehensions, f-strings
    def ev_ListComp(self, ex, e, st):
        g = e.generators[0] if len(e.generators) == 1 else None
        if g is None or not isinstance(g.target, ast.Name):
            return None
        var = g.target.id
        # [c for c in current if c is not clause]
        if isinstance(e.elt, ast.Name) and e.elt.id == var and len(g.ifs) == 1:
            t = g.ifs[0]
            if isinstance(t, ast.Compare) and len(t.ops) == 1 and isinstance(t.ops[0], ast.IsNot) \
                    and isinstance(t.left, ast.Name) and t.left.id == var:
                outs = []
                for st2, lst in ex.eval(g.iter, st):
                    for st3, x in ex.eval(t.comparators[0], st2):
                        if lst.sort == 'FList' and x.sort == 'Answer':
                            outs.append((st3, self.new_list(ex, st3, '(sremove (select %s %s) %s)' % (st3.comp['lists'], lst.e, x.e))))
                        else:
                            raise OutOfSubset('filter comprehension over %s' % lst.sort, e)
                return outs
        # [expr for r in <nondeterministic iterator>] with r unused: one element per answer, in order; the
        # iterator is exhausted afterwards
        if not g.ifs and not any(isinstance(x, ast.Name) and x.id == var for x in ast.walk(e.elt)):
            outs = []
            for st2, it in ex.eval(g.iter, st):
                if isinstance(it, Exc):
                    outs.append((st2, it))
                    continue
                if not (it.sort == 'Iter' and it.meta.get('nondet')):
                    outs = None
                    break
                # the element expression is evaluated once per answer in an arbitrary state: its safety obligations
                probe = st2.fork().tag('comprehension.element')
                self.nd_step_effects(ex, probe)
                for st3, v in ex.eval(e.elt, probe):
                    if isinstance(v, Exc):
                        outs.append((st3, v))
                    elif v.sort != 'Term':
                        raise OutOfSubset('comprehension element of sort %s' % v.sort, e)
                done = st2.tag('comprehension.exhausted')
                self.nd_step_effects(ex, done)
                done.comp['ist'] = '(store %s %s DONE)' % (done.comp['ist'], it.e)
                coll = ex.fresh('TList', 'collected')
                done.ghost['__collected'] = coll
                outs.append((done, SV('TList', coll)))
                for cls in ('UserException', 'RecursionError'):
                    b = done.fork()
                    b.trace[-1] = 'comprehension.raises:' + cls
                    outs.append((b, Exc(cls)))
            if outs is not None:
                return outs
        # [f(a, m) for a in L] with f a state-threading callee that has a fold specification
        if not g.ifs and isinstance(e.elt, ast.Call) and isinstance(e.elt.func, ast.Name) and e.elt.args \
                and isinstance(e.elt.args[0], ast.Name) and e.elt.args[0].id == var:
            cname = '%s.%s' % (ex.modname, e.elt.func.id)
            c = ex.reg.get(cname)
            if c is not None and c.ghost.get('fold'):
                outs = []
                for st2, lst in ex.eval(g.iter, st):
                    if isinstance(lst, Exc):
                        outs.append((st2, lst))
                        continue
                    for st3, rest in ex.eval_args(e.elt.args[1:], st2):
                        if lst.sort == 'PyList':
                            lst = self.coerce(ex, lst, 'TList', st3)
                        if lst is None or lst.sort != 'TList':
                            raise OutOfSubset('fold comprehension over a non-term list', e)
                        outs.extend(c.ghost['fold'](ex, self, st3, lst, rest))
                return outs
        return None

    def ev_JoinedStr(self, ex, e, st):
        parts = []
        cur = [(st, [])]
        for v in e.values:
            nxt = []
            for st2, acc in cur:
                if isinstance(v, ast.Constant):
                    nxt.append((st2, acc + [smt_str(v.value)]))
                elif isinstance(v, ast.FormattedValue) and v.format_spec is None and v.conversion == -1:
                    for st3, x in ex.eval(v.value, st2):
                        if isinstance(x, Exc):
                            raise OutOfSubset('exception inside an f-string', e)
                        if x.sort == 'Str':
                            nxt.append((st3, acc + [x.e]))
                        elif x.sort in ('Int', 'OptInt'):
                            if x.sort == 'OptInt':
                                ex.oblige(st3, 'safety.fstring_not_none', NOT(x.meta['none']), 'safety')
                            ex.oblige(st3, 'safety.fstring_int_nonneg', '(>= %s 0)' % x.e, 'safety')
                            nxt.append((st3, acc + ['(str.from_int %s)' % x.e]))
                        else:
                            raise OutOfSubset('f-string of %s' % x.sort, e)
                else:
                    raise OutOfSubset('f-string form', e)
            cur = nxt
        return [(s2, SV('Str', acc[0] if len(acc) == 1 else '(str.++ %s)' % ' '.join(acc))) for s2, acc in cur]


class AtomStoreTheory(EngineTheory):
    """EngineTheory plus the atom table `YP._atom_store` (name -> Atom object): two ghost components
         ahas  (Array String Bool)     the name is a key of the table
         aname (Array String String)   the name of the Atom object stored under the key
    Used only to verify `YP.atom` against its own contract (contracts/engine_atom.py). Everywhere else `atom` is the pure function
    name -> (TAtom name): sound because the table is read by `atom` alone (AST obligation `_atom_store.encapsulated`) and the
    representation invariant (every key holds the atom of that name) is established by `{}` and preserved by `atom`."""
    COMPS = COMPS + [('ahas', '(Array String Bool)'), ('aname', '(Array String String)')]

    def attr_read(self, ex, base, attr, st, node):
        if base.sort == 'YP' and attr == '_atom_store':
            return [(st, SV('AStore', None))]
        return EngineTheory.attr_read(self, ex, base, attr, st, node)

    def attr_write(self, ex, base, attr, v, st, node):
        if base.sort == 'YP' and attr == '_atom_store' and v.sort == 'PyDict' and not v.meta.get('items'):
            st.comp['ahas'] = '((as const (Array String Bool)) false)'
            return [(st, None)]
        return EngineTheory.attr_write(self, ex, base, attr, v, st, node)

    def havoc_sv(self, ex, st, v, hint):
        if v.sort == 'AStore':
            return v
        return EngineTheory.havoc_sv(self, ex, st, v, hint)

    def apply_method(self, ex, e, base, meth, args, st):
        if base.sort == 'AStore' and meth == 'setdefault' and len(args) == 2 and args[0].sort == 'Str' and args[1].sort == 'Term':
            k, v = args[0].e, args[1].e
            ex.oblige(st, 'safety.atom_table_holds_atoms', '((_ is TAtom) %s)' % v, 'safety')
            has = '(select %s %s)' % (st.comp['ahas'], k)
            old = st.comp['aname']
            st.comp['aname'] = ITE(has, old, '(store %s %s (aname %s))' % (old, k, v))
            st.comp['ahas'] = '(store %s %s true)' % (st.comp['ahas'], k)
            return [(st, SV('Term', '(TAtom (select %s %s))' % (st.comp['aname'], k)))]
        if base.sort == 'AStore' and meth == 'get' and len(args) == 1 and args[0].sort == 'Str':
            k = args[0].e
            a = st.fork().assume('(select %s %s)' % (st.comp['ahas'], k)).tag('present')
            b = st.assume(NOT('(select %s %s)' % (st.comp['ahas'], k))).tag('absent')
            return [(a, SV('Term', '(TAtom (select %s %s))' % (a.comp['aname'], k))), (b, NONE)]
        return EngineTheory.apply_method(self, ex, e, base, meth, args, st)

    def subscript(self, ex, e, base, idx, st):
        if base.sort == 'AStore' and idx.sort == 'Str':
            a = st.fork().assume('(select %s %s)' % (st.comp['ahas'], idx.e)).tag('present')
            b = st.assume(NOT('(select %s %s)' % (st.comp['ahas'], idx.e))).tag('absent')
            return [(a, SV('Term', '(TAtom (select %s %s))' % (a.comp['aname'], idx.e))), (b, Exc('KeyError'))]
        return EngineTheory.subscript(self, ex, e, base, idx, st)

    def store_subscript(self, ex, node, base, idx, v, st):
        if base.sort == 'AStore' and idx.sort == 'Str' and v.sort == 'Term':
            ex.oblige(st, 'safety.atom_table_holds_atoms', '((_ is TAtom) %s)' % v.e, 'safety')
            st.comp['aname'] = '(store %s %s (aname %s))' % (st.comp['aname'], idx.e, v.e)
            st.comp['ahas'] = '(store %s %s true)' % (st.comp['ahas'], idx.e)
            return [(st, None)]
        return EngineTheory.store_subscript(self, ex, node, base, idx, v, st)

    def compare(self, ex, e, op, a, b, st):
        return EngineTheory.compare(self, ex, e, op, a, b, st) if hasattr(EngineTheory, 'compare') else None
