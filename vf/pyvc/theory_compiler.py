"""Theory plug-in for yp_generator.YPPrologCompiler: clause bodies and YPCode trees as datatypes.

Python classes of yp_prolog_visitor (TruePredicate, ConjunctionPredicate, ...) are the constructors of
the SMT datatype Body; YPCode* classes are the constructors of Stmt; Python lists of YPCode
statements are Code.  A Predicate is BCutIf when its functor name is '$CUTIF', else BPred.
Labels ("cutIf" + str(counter)) are represented by the counter value (A-PY-STR: str(int) is
injective, so label texts are equal iff the counters are).
"""
import ast

from .core import SV, OutOfSubset, AND, OR, NOT, EQ, ITE, smt_str
from .theory import Theory

BODY_CLASSES = {
    'TruePredicate': lambda b: '((_ is BTrue) %s)' % b,
    'FailPredicate': lambda b: '((_ is BFail) %s)' % b,
    'CutPredicate': lambda b: '((_ is BCut) %s)' % b,
    'Predicate': lambda b: OR('((_ is BPred) %s)' % b, '((_ is BCutIf) %s)' % b),
    'ConjunctionPredicate': lambda b: '((_ is BConj) %s)' % b,
    'DisjunctionPredicate': lambda b: '((_ is BDisj) %s)' % b,
    'IfThenPredicate': lambda b: '((_ is BIfThen) %s)' % b,
    'NegationPredicate': lambda b: '((_ is BNeg) %s)' % b,
}


class CompilerTheory(Theory):
    COMPS = [('cic', 'Int')]
    NO_TERM_COMPS = True

    def loop_modified_comps(self, ex, body):
        """components a loop body may change (the others keep their value across the loop: not havocked)"""
        mods = set()
        cls = ex.qualname.split('.')[0]
        for s_ in body:
            for n in ast.walk(s_):
                if isinstance(n, ast.Attribute) and isinstance(n.value, ast.Name) and n.value.id == 'self':
                    if n.attr == 'cut_if_counter' and isinstance(n.ctx, ast.Store):
                        mods.add('cic')
                if isinstance(n, ast.Call) and isinstance(n.func, ast.Attribute):
                    f = n.func
                    if isinstance(f.value, ast.Name) and f.value.id == 'self':
                        c = ex.reg.get('%s.%s.%s' % (ex.modname, cls, f.attr))
                        if c is None:
                            return None
                        mods.update(c.modifies)
                    if isinstance(f.value, ast.Attribute) and f.value.attr == 'head_args_by_pos' and f.attr in ('append', 'pop', 'insert'):
                        mods.update(['hp', 'hpn', 'hplen'])
                if isinstance(n, ast.Subscript) and isinstance(n.ctx, ast.Store) and isinstance(n.value, ast.Attribute) \
                        and n.value.attr == 'head_args_by_pos':
                    mods.update(['hp', 'hpn'])
                if isinstance(n, ast.Assign) and any(isinstance(t, ast.Attribute) and t.attr == 'head_args_by_pos' for t in n.targets):
                    mods.update(['hp', 'hpn', 'hplen'])
        return mods

    def havoc_sv_self(self, v):
        return v if v.sort in ('CSelf', 'HPList', 'Ctx') else None

    def mk_param(self, ex, st, n, sort, sub):
        if sort == 'CSelf':
            return SV('CSelf', None)
        if sort in ('Body', 'Code'):
            e = ex.fresh(sort, n)
            if sub:
                st.assume('((_ is %s) %s)' % (sub, e))
            return SV(sort, e)
        return None

    def isinstance(self, ex, v, cls, st, node):
        if v.sort == 'Body' and cls in BODY_CLASSES:
            return BODY_CLASSES[cls](v.e)
        return None

    def attr_read(self, ex, base, attr, st, node):
        b = base.e
        if base.sort == 'Body':
            if attr in ('lhs', 'rhs'):
                ex.oblige(st, 'safety.attr.' + attr, OR('((_ is BConj) %s)' % b, '((_ is BDisj) %s)' % b), 'safety')
                sel = ('cl', 'dl') if attr == 'lhs' else ('cr', 'dr')
                # the path condition usually fixes the constructor already: avoid the ite then
                if '((_ is BConj) %s)' % b in st.pc:
                    return [(st, SV('Body', '(%s %s)' % (sel[0], b)))]
                if '((_ is BDisj) %s)' % b in st.pc:
                    return [(st, SV('Body', '(%s %s)' % (sel[1], b)))]
                return [(st, SV('Body', ITE('((_ is BConj) %s)' % b, '(%s %s)' % (sel[0], b), '(%s %s)' % (sel[1], b))))]
            if attr in ('condition', 'action'):
                ex.oblige(st, 'safety.attr.' + attr, '((_ is BIfThen) %s)' % b, 'safety')
                return [(st, SV('Body', '(%s %s)' % ('ic' if attr == 'condition' else 'ia', b)))]
            if attr == 'pred':
                ex.oblige(st, 'safety.attr.pred', '((_ is BNeg) %s)' % b, 'safety')
                return [(st, SV('Body', '(np %s)' % b))]
            if attr == 'functor':
                ex.oblige(st, 'safety.attr.functor', OR('((_ is BPred) %s)' % b, '((_ is BCutIf) %s)' % b), 'safety')
                return [(st, SV('PFunc', b))]
        if base.sort == 'PFunc':
            if attr == 'name':
                return [(st, SV('PName', b))]
            if attr == 'args':
                return [(st, SV('PArgs', b))]
        if base.sort == 'PName' and attr == 'value':
            return [(st, SV('Str', ITE('((_ is BCutIf) %s)' % b, smt_str('$CUTIF'), '(pname (pid %s))' % b)))]
        if base.sort == 'PArg0' and attr == 'value':
            return [(st, SV('Label', '(lbl %s)' % b))]
        if base.sort == 'CSelf':
            if attr == 'cut_if_counter':
                return [(st, SV('Int', st.comp['cic']))]
            if attr in ('context',):
                return [(st, SV('Ctx', None))]
            # an attribute that the class does not define: AttributeError
            cls = ex.qualname.split('.')[0]
            from . import core
            mod = core.module(ex.modname)
            if (cls + '.' + attr) not in mod.functions:
                ex.oblige(st.fork().tag('attr:' + attr), 'safety.no_such_attribute', 'false', 'safety')
                return []
        return None

    def attr_write(self, ex, base, attr, v, st, node):
        if base.sort == 'CSelf' and attr == 'cut_if_counter' and v.sort == 'Int':
            st.comp['cic'] = v.e
            return [(st, None)]
        return None

    def subscript(self, ex, e, base, idx, st):
        if base.sort == 'PArgs' and idx.e == '0':
            # the only argument list that is ever indexed is the one of a $CUTIF marker
            ex.oblige(st, 'safety.cutif_args', '((_ is BCutIf) %s)' % base.e, 'safety')
            return [(st, SV('PArg0', base.e))]
        return None

    def mk_pylist(self, ex, items, st):
        if items and all(i.sort == 'Stmt' for i in items):
            out = 'cnil'
            for i in reversed(items):
                out = '(ccons %s %s)' % (i.e, out)
            return SV('Code', out)
        return None

    def binop(self, ex, e, a, b, st):
        if isinstance(e.op, ast.Add):
            if a.sort == 'PyList' and not a.meta['items']:
                a = SV('Code', 'cnil')
            if b.sort == 'PyList' and not b.meta['items']:
                b = SV('Code', 'cnil')
            if a.sort == 'Code' and b.sort == 'Code':
                return SV('Code', '(capp %s %s)' % (a.e, b.e))
            if a.sort == 'Str' and b.sort == 'StrOfInt' and a.e == smt_str('cutIf'):
                return SV('Label', b.e)
            if a.sort == 'Str' and b.sort == 'StrOfInt':
                return SV('Str', '(str.++ %s (str.from_int %s))' % (a.e, b.e))
        return None

    def ev_JoinedStr(self, ex, e, st):
        """f"<text>{<int expression>}" (no conversion, no format spec) is "<text>" + str(<int>): the label form of get_cut_if_label"""
        vals = e.values
        if len(vals) == 2 and isinstance(vals[0], ast.Constant) and isinstance(vals[0].value, str) and isinstance(vals[1], ast.FormattedValue) \
                and vals[1].conversion in (-1, 115) and vals[1].format_spec is None:
            outs = []
            for st2, v in ex.eval(vals[1].value, st):
                if not isinstance(v, SV) or v.sort != 'Int':
                    return None
                if vals[0].value == 'cutIf':
                    outs.append((st2, SV('Label', v.e)))
                else:
                    outs.append((st2, SV('Str', '(str.++ %s (str.from_int %s))' % (smt_str(vals[0].value), v.e))))
            return outs
        return None

    def equal(self, ex, e, op, a, b, st):
        if a.sort == 'Label' and b.sort == 'Label':
            return EQ(a.e, b.e)
        if a.sort == 'Code' and b.sort == 'PyList' and not b.meta['items']:
            return EQ(a.e, 'cnil')
        if b.sort == 'Code' and a.sort == 'PyList' and not a.meta['items']:
            return EQ(b.e, 'cnil')
        return None

    def apply_name(self, ex, e, name, args, st):
        so = [a.sort for a in args]
        if name == 'str' and so == ['Int']:
            return [(st, SV('StrOfInt', args[0].e))]
        two = {'ConjunctionPredicate': 'BConj', 'DisjunctionPredicate': 'BDisj', 'IfThenPredicate': 'BIfThen'}
        if name in two and so == ['Body', 'Body']:
            return [(st, SV('Body', '(%s %s %s)' % (two[name], args[0].e, args[1].e)))]
        if name == 'NegationPredicate' and so == ['Body']:
            return [(st, SV('Body', '(BNeg %s)' % args[0].e))]
        zero = {'TruePredicate': 'BTrue', 'FailPredicate': 'BFail', 'CutPredicate': 'BCut'}
        if name in zero and not args:
            return [(st, SV('Body', zero[name]))]
        if name == 'Atom' and len(args) == 1 and args[0].sort in ('Str', 'Label'):
            return [(st, SV('NewAtom', None, {'v': args[0]}))]
        if name == 'Functor' and len(args) == 2 and args[0].sort == 'NewAtom' and args[1].sort == 'PyList':
            return [(st, SV('NewFunctor', None, {'name': args[0].meta['v'], 'args': args[1].meta['items']}))]
        if name == 'Predicate' and so == ['NewFunctor']:
            nm, fa = args[0].meta['name'], args[0].meta['args']
            if nm.sort == 'Str' and nm.e == smt_str('$CUTIF') and len(fa) == 1 and fa[0].sort == 'NewAtom' \
                    and fa[0].meta['v'].sort == 'Label':
                return [(st, SV('Body', '(BCutIf %s)' % fa[0].meta['v'].e))]
            raise OutOfSubset('construction of a Predicate other than the $CUTIF marker', e)
        stm0 = {'YPCodeYieldFalse': 'SYieldF', 'YPCodeYieldTrue': 'SYieldT', 'YPCodeYieldBreak': 'SReturn'}
        if name in stm0 and not args:
            return [(st, SV('Stmt', stm0[name]))]
        if name == 'YPCodeBreakBlock' and so == ['Label']:
            return [(st, SV('Stmt', '(SBreak %s)' % args[0].e))]
        if name == 'YPCodeBreakableBlock' and len(args) == 2 and so[0] == 'Label':
            code = args[1]
            if code.sort == 'PyList' and not code.meta['items']:
                code = SV('Code', 'cnil')
            if code.sort == 'Code':
                return [(st, SV('Stmt', '(SBlock %s %s)' % (args[0].e, code.e)))]
        return None

    def apply_method(self, ex, e, base, meth, args, st):
        if base.sort == 'CSelf':
            cls = ex.qualname.split('.')[0]
            cname = '%s.%s.%s' % (ex.modname, cls, meth)
            if cname in ex.reg:
                return ex.apply_contract(e, ex.reg[cname], [base] + args, st)
            from . import core
            if (cls + '.' + meth) not in core.module(ex.modname).functions:
                ex.oblige(st.fork().tag('attr:' + meth), 'safety.no_such_attribute', 'false', 'safety')
                return []
            r = ex.try_inline(e, cls + '.' + meth, [base] + args, st)
            if r is not None:
                return r
            raise OutOfSubset('no contract for %s' % cname, e)
        return None

    def coerce(self, ex, a, want, st):
        if want == 'Code' and a.sort == 'PyList' and not a.meta['items']:
            return SV('Code', 'cnil')
        return None

    def mk_ret(self, ex, sort, e, st):
        if sort in ('Code', 'Body', 'Label', 'Stmt'):
            return SV(sort, e)
        return None

    def smt_sort(self, sort):
        return {'Label': 'Int'}.get(sort)
