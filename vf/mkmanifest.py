"""Regenerates MANIFEST.json from the per-property tables (keeps it schema-valid at all times)."""
import json
import os

VERIF = os.path.dirname(os.path.dirname(os.path.abspath(__file__)))

from .manifest_table import CHECKS, NOT_APPLICABLE


def main():
    props = [json.loads(l)['id'] for l in open(os.path.join(VERIF, 'properties.jsonl'))]
    checks = []
    for pid in props:
        if pid not in CHECKS:
            continue
        c = CHECKS[pid]
        checks.append(dict(
            property_id=pid,
            quick_cmd='./check %s --tier quick' % pid,
            thorough_cmd='./check %s --tier thorough' % pid,
            evidence_file='evidence/%s.json' % pid,
            replay_cmd_template='./check %s --replay {path}' % pid,
            engine='pyvc',
            level_claimed=dict(category=c['level'], text=c['text'], design_ref=c['ref']),
            level_note=c['note'],
            technique=c['technique']))
    na = [dict(property_id=p, reason=NOT_APPLICABLE.get(p, 'check not built yet (work in progress); see DESIGN.md section 5'))
          for p in props if p not in CHECKS]
    m = dict(
        version=1,
        setup_cmd='./setup.sh',
        hooks=dict(guard='YLDPROLOG_VERIF', enable='no source hook is needed: checks read /repo/src directly and wrap Variable.__init__ from the harness process',
                   baseline_off_cmd='cd /repo && /venv/bin/python -m pytest -ra -q -p no:cacheprovider --timeout=900 --continue-on-collection-errors',
                   source_commits=[], add_only=True),
        engines=[dict(name='pyvc', path='vf/pyvc', serves_properties=[c['property_id'] for c in checks],
                      kind_free_text='contract-based deductive verifier for the Python subset used by yldprolog: re-reads /repo/src with ast on every run, '
                                     'symbolic execution to SMT-LIB verification conditions (sidecar contracts in contracts/), portfolio z3 5.1 / cvc5 / z3 4.8; '
                                     'Lean 4 for the control-algebra lemma layer; bounded stand-ins on the real code under standin/ (labelled bounded)')],
        checks=checks,
        notes='exit codes: 0 held, 1 VIOLATION, 2 undecided (never a violation), 3 checker crash. Known findings: known_findings.json. See DESIGN.md.',
        not_applicable=na)
    with open(os.path.join(VERIF, 'MANIFEST.json'), 'w') as f:
        json.dump(m, f, indent=1)
    print('MANIFEST.json: %d checks, %d not claimed' % (len(checks), len(na)))


if __name__ == '__main__':
    main()
