/-
  CtlM1.lean -- model M1 (pure): control algebra of clause bodies / generated loop code.
  Core Lean 4 only (no Mathlib).  Check with `lean CtlM1.lean`.
-/
inductive Status where
  | done | cut | exit (l : Nat)
deriving DecidableEq

abbrev Res (S : Type) := List S × Status
abbrev Beh (S : Type) := S → Res S

variable {S : Type}

def yieldB : Beh S := fun s => ([s], .done)
def failB : Beh S := fun _ => ([], .done)
def cutB : Beh S := fun _ => ([], .cut)
def exitB (l : Nat) : Beh S := fun _ => ([], .exit l)

/-- sequencing of two results: the second is only run when the first ended normally -/
def thenR (r : Res S) (k : Unit → Res S) : Res S :=
  match r with
  | (o, .done) => let r2 := k (); (o ++ r2.1, r2.2)
  | r => r

def seqB (a b : Beh S) : Beh S := fun s => thenR (a s) (fun _ => b s)

def runAll (b : Beh S) : List S → Res S
  | [] => ([], .done)
  | t :: ts => thenR (b t) (fun _ => runAll b ts)

def bindB (a b : Beh S) : Beh S := fun s =>
  let r := a s
  thenR (runAll b r.1) (fun _ => ([], r.2))

theorem thenR_done_nil (r : Res S) : thenR r (fun _ => ([], .done)) = r := by
  rcases r with ⟨o, st⟩
  cases st <;> simp [thenR]

theorem thenR_assoc (r : Res S) (k1 k2 : Unit → Res S) :
    thenR (thenR r k1) k2 = thenR r (fun _ => thenR (k1 ()) k2) := by
  rcases r with ⟨o, st⟩
  cases st with
  | done =>
    simp only [thenR]
    rcases h : k1 () with ⟨o1, st1⟩
    cases st1 <;> simp [List.append_assoc]
  | cut => simp [thenR]
  | exit l => simp [thenR]

theorem seq_fail_left (x : Beh S) : seqB failB x = x := by
  funext s; simp [seqB, failB, thenR]

theorem seq_fail_right (x : Beh S) : seqB x failB = x := by
  funext s; simp only [seqB, failB]; exact thenR_done_nil _

theorem seq_assoc (x y z : Beh S) : seqB (seqB x y) z = seqB x (seqB y z) := by
  funext s; simp only [seqB]; exact thenR_assoc _ _ _

theorem runAll_append (b : Beh S) (xs ys : List S) :
    runAll b (xs ++ ys) = thenR (runAll b xs) (fun _ => runAll b ys) := by
  induction xs with
  | nil => simp [runAll, thenR]
  | cons t ts ih =>
    simp only [List.cons_append, runAll, ih]
    rw [thenR_assoc]

theorem bind_yield (b : Beh S) : bindB yieldB b = b := by
  funext s
  simp only [bindB, yieldB, runAll]
  rw [thenR_done_nil, thenR_done_nil]

theorem bind_fail (b : Beh S) : bindB failB b = failB := by
  funext s; simp [bindB, failB, runAll, thenR]

theorem bind_cut (b : Beh S) : bindB cutB b = cutB := by
  funext s; simp [bindB, cutB, runAll, thenR]

theorem bind_exit (b : Beh S) (l : Nat) : bindB (exitB l) b = exitB l := by
  funext s; simp [bindB, exitB, runAll, thenR]

/-- helper: bind expressed on results -/
def bindR (r : Res S) (b : Beh S) : Res S := thenR (runAll b r.1) (fun _ => ([], r.2))

theorem bindR_thenR (r : Res S) (k : Unit → Res S) (b : Beh S) :
    bindR (thenR r k) b = thenR (bindR r b) (fun _ => bindR (k ()) b) := by
  rcases r with ⟨o, st⟩
  cases st with
  | done =>
    have h1 : thenR ((o, Status.done) : Res S) k = (o ++ (k ()).1, (k ()).2) := rfl
    have h2 : bindR ((o, Status.done) : Res S) b = runAll b o := by
      unfold bindR; exact thenR_done_nil _
    rw [h1, h2]
    unfold bindR
    show thenR (runAll b (o ++ (k ()).1)) _ = _
    rw [runAll_append, thenR_assoc]
  | cut =>
    have h1 : thenR ((o, Status.cut) : Res S) k = (o, Status.cut) := rfl
    rw [h1]; unfold bindR
    rcases runAll b o with ⟨o1, st1⟩
    cases st1 <;> simp [thenR]
  | exit l =>
    have h1 : thenR ((o, Status.exit l) : Res S) k = (o, Status.exit l) := rfl
    rw [h1]; unfold bindR
    rcases runAll b o with ⟨o1, st1⟩
    cases st1 <;> simp [thenR]

theorem bind_seq (x y b : Beh S) : bindB (seqB x y) b = seqB (bindB x b) (bindB y b) := by
  funext s
  show bindR (thenR (x s) (fun _ => y s)) b = thenR (bindR (x s) b) (fun _ => bindR (y s) b)
  exact bindR_thenR _ _ _

theorem runAll_bind (b c : Beh S) (xs : List S) :
    runAll (bindB b c) xs = bindR (runAll b xs) c := by
  induction xs with
  | nil => simp [runAll, bindR, thenR]
  | cons t ts ih =>
    simp only [runAll]
    rw [bindR_thenR, ih]
    rfl

theorem bind_assoc (a b c : Beh S) : bindB (bindB a b) c = bindB a (bindB b c) := by
  funext s
  show bindR (thenR (runAll b (a s).1) (fun _ => ([], (a s).2))) c
     = thenR (runAll (bindB b c) (a s).1) (fun _ => ([], (a s).2))
  rw [bindR_thenR, runAll_bind]
  rfl

def iteB (c t e : Beh S) : Beh S := fun s =>
  match (c s).1 with
  | [] => e s
  | x :: _ => t x

def blockR (l : Nat) : Res S → Res S
  | (o, .exit l') => if l' = l then (o, .done) else (o, .exit l')
  | r => r

def blockB (l : Nat) (b : Beh S) : Beh S := fun s => blockR l (b s)

def negB (a : Beh S) : Beh S := fun s =>
  match (a s).1 with
  | [] => ([s], .done)
  | _ :: _ => ([], .done)

def pureB (c : Beh S) : Prop := ∀ s, (c s).2 = .done
def noexitB (l : Nat) (t : Beh S) : Prop := ∀ s, (t s).2 ≠ .exit l

theorem neg_ite (a : Beh S) : negB a = iteB a failB yieldB := by
  funext s; simp only [negB, iteB]
  cases (a s).1 <;> simp [failB, yieldB]

theorem blockR_noexit (l : Nat) (r : Res S) (h : r.2 ≠ .exit l) : blockR l r = r := by
  rcases r with ⟨o, st⟩
  cases st with
  | done => rfl
  | cut => rfl
  | exit l' =>
    have : l' ≠ l := by intro e; apply h; simp [e]
    simp [blockR, this]

theorem thenR_nondone (r : Res S) (k : Unit → Res S) (h : r.2 ≠ .done) : thenR r k = r := by
  rcases r with ⟨o, st⟩
  cases st with
  | done => exact absurd rfl h
  | cut => rfl
  | exit l => rfl

theorem ite_block (l : Nat) (c t e : Beh S)
    (hc : pureB c) (ht : noexitB l t) (he : noexitB l e) :
    blockB l (seqB (bindB c (seqB t (exitB l))) e) = iteB c t e := by
  funext s
  have hcs := hc s
  rcases hcv : c s with ⟨o, st⟩
  rw [hcv] at hcs
  simp only at hcs
  subst hcs
  simp only [blockB, seqB, bindB, iteB, hcv]
  cases o with
  | nil =>
    have : thenR (thenR (runAll (seqB t (exitB l)) ([] : List S))
        fun _ => (([] : List S), Status.done)) (fun _ => e s) = e s := by
      simp [runAll, thenR]
    rw [this]
    exact blockR_noexit l (e s) (he s)
  | cons x xs =>
    have htx := ht x
    rcases htv : t x with ⟨o1, st1⟩
    rw [htv] at htx
    -- the first answer of the condition runs t and then leaves the block
    have key : runAll (seqB t (exitB l)) (x :: xs)
        = (match st1 with | .done => (o1, Status.exit l) | st => (o1, st)) := by
      simp only [runAll, seqB, htv]
      cases st1 <;> simp [thenR, exitB]
    rw [key]
    cases st1 with
    | done => simp [thenR, blockR, htv]
    | cut => simp [thenR, blockR, htv]
    | exit l' =>
      have : l' ≠ l := by intro e; apply htx; simp [e]
      simp [thenR, blockR, this, htv]

theorem bind_ite (c t e k : Beh S) : bindB (iteB c t e) k = iteB c (bindB t k) (bindB e k) := by
  funext s
  simp only [bindB, iteB]
  cases (c s).1 <;> rfl

/-! ### extra unit law -/

theorem runAll_yield (o : List S) : runAll yieldB o = (o, .done) := by
  induction o with
  | nil => rfl
  | cons t ts ih => simp [runAll, ih, yieldB, thenR]

theorem bind_yield_right (a : Beh S) : bindB a yieldB = a := by
  funext s
  simp only [bindB, runAll_yield]
  simp [thenR]

/-! ### closure facts for `pureB` / `noexitB` -/

theorem thenR_status (r : Res S) (k : Unit → Res S) (P : Status → Prop)
    (hr : P r.2) (hk : P (k ()).2) : P (thenR r k).2 := by
  rcases r with ⟨o, st⟩
  cases st with
  | done => exact hk
  | cut => exact hr
  | exit l => exact hr

/-- the final status of `thenR r k` is the one of `r` or the one of `k ()` -/
theorem thenR_status' (r : Res S) (k : Unit → Res S) (P : Status → Prop)
    (hr : r.2 ≠ .done → P r.2) (hk : P (k ()).2) : P (thenR r k).2 := by
  rcases r with ⟨o, st⟩
  cases st with
  | done => exact hk
  | cut => exact hr (by simp)
  | exit l => exact hr (by simp)

theorem runAll_status (b : Beh S) (P : Status → Prop) (hd : P .done)
    (hb : ∀ s, P (b s).2) (o : List S) : P (runAll b o).2 := by
  induction o with
  | nil => exact hd
  | cons t ts ih => exact thenR_status _ _ P (hb t) ih

theorem seq_status (P : Status → Prop) (a b : Beh S)
    (ha : ∀ s, P (a s).2) (hb : ∀ s, P (b s).2) : ∀ s, P (seqB a b s).2 :=
  fun s => thenR_status _ _ P (ha s) (hb s)

theorem bind_status (P : Status → Prop) (a b : Beh S)
    (ha : ∀ s, P (a s).2) (hb : ∀ s, P (b s).2) : ∀ s, P (bindB a b s).2 := by
  intro s
  refine thenR_status' _ _ P ?_ (ha s)
  intro hnd
  -- the run over the answers of `a` did not end normally: its status is one of `b`'s
  generalize (a s).1 = o at hnd ⊢
  induction o with
  | nil => exact absurd rfl hnd
  | cons t ts ih =>
    simp only [runAll] at hnd ⊢
    rcases hbt : b t with ⟨o1, st1⟩
    have h1 := hb t
    rw [hbt] at h1 hnd
    cases st1 with
    | done =>
      have e : thenR ((o1, Status.done) : Res S) (fun _ => runAll b ts)
          = (o1 ++ (runAll b ts).1, (runAll b ts).2) := rfl
      rw [e] at hnd ⊢
      exact ih hnd
    | cut => exact h1
    | exit l => exact h1

theorem ite_status (P : Status → Prop) (c t e : Beh S)
    (ht : ∀ s, P (t s).2) (he : ∀ s, P (e s).2) : ∀ s, P (iteB c t e s).2 := by
  intro s
  simp only [iteB]
  cases (c s).1 with
  | nil => exact he s
  | cons x xs => exact ht x

theorem neg_status (a : Beh S) (s : S) : (negB a s).2 = .done := by
  simp only [negB]
  cases (a s).1 <;> rfl

theorem pure_yield : pureB (yieldB : Beh S) := fun _ => rfl
theorem pure_fail : pureB (failB : Beh S) := fun _ => rfl
theorem pure_seq {a b : Beh S} (ha : pureB a) (hb : pureB b) : pureB (seqB a b) :=
  seq_status (· = .done) a b ha hb
theorem pure_bind {a b : Beh S} (ha : pureB a) (hb : pureB b) : pureB (bindB a b) :=
  bind_status (· = .done) a b ha hb
theorem pure_ite {c t e : Beh S} (ht : pureB t) (he : pureB e) : pureB (iteB c t e) :=
  ite_status (· = .done) c t e ht he
theorem pure_neg (a : Beh S) : pureB (negB a) := neg_status a

theorem noexit_of_pure {l : Nat} {a : Beh S} (ha : pureB a) : noexitB l a := by
  intro s h; rw [ha s] at h; exact Status.noConfusion h
theorem noexit_yield (l : Nat) : noexitB l (yieldB : Beh S) := noexit_of_pure pure_yield
theorem noexit_fail (l : Nat) : noexitB l (failB : Beh S) := noexit_of_pure pure_fail
theorem noexit_cut (l : Nat) : noexitB l (cutB : Beh S) := fun _ h => Status.noConfusion h
theorem noexit_exit {l l' : Nat} (h : l' ≠ l) : noexitB l (exitB l' : Beh S) := by
  intro s e; apply h; simpa [exitB] using e
theorem noexit_seq {l : Nat} {a b : Beh S} (ha : noexitB l a) (hb : noexitB l b) :
    noexitB l (seqB a b) :=
  seq_status (· ≠ .exit l) a b ha hb
theorem noexit_bind {l : Nat} {a b : Beh S} (ha : noexitB l a) (hb : noexitB l b) :
    noexitB l (bindB a b) :=
  bind_status (· ≠ .exit l) a b ha hb
theorem noexit_ite {l : Nat} {c t e : Beh S} (ht : noexitB l t) (he : noexitB l e) :
    noexitB l (iteB c t e) :=
  ite_status (· ≠ .exit l) c t e ht he
theorem noexit_neg (l : Nat) (a : Beh S) : noexitB l (negB a) := noexit_of_pure (pure_neg a)

theorem blockR_status (l l' : Nat) (r : Res S) (h : l' = l ∨ r.2 ≠ .exit l') :
    (blockR l r).2 ≠ .exit l' := by
  rcases r with ⟨o, st⟩
  cases st with
  | done => intro e; exact Status.noConfusion e
  | cut => intro e; exact Status.noConfusion e
  | exit l2 =>
    simp only [blockR]
    by_cases hl : l2 = l
    · simp [hl]
    · simp only [hl, if_false]
      rcases h with h | h
      · intro e; apply hl; subst h; simpa using e
      · exact h

/-- a block never leaves with its own label -/
theorem noexit_block (l : Nat) (b : Beh S) : noexitB l (blockB l b) :=
  fun s => blockR_status l l (b s) (Or.inl rfl)
/-- a block does not introduce exits with other labels -/
theorem noexit_block_of {l l' : Nat} {b : Beh S} (hb : noexitB l' b) : noexitB l' (blockB l b) :=
  fun s => blockR_status l l' (b s) (Or.inr (hb s))
/-- a block around a pure behaviour is pure -/
theorem pure_block {l : Nat} {b : Beh S} (hb : pureB b) : pureB (blockB l b) := by
  intro s; simp only [blockB]; rw [blockR_noexit l (b s) (noexit_of_pure hb s)]; exact hb s

/-! ### source syntax -/

inductive Body (G : Type) where
  | tt | ff | cut
  | pred (g : G)
  | cutif (l : Nat)
  | conj (a b : Body G)
  | disj (a b : Body G)
  | ifthen (c t : Body G)
  | neg (a : Body G)

variable {G : Type}

def semb (env : G → Beh S) : Body G → Beh S
  | .tt => yieldB
  | .ff => failB
  | .cut => seqB yieldB cutB
  | .pred g => env g
  | .cutif l => seqB yieldB (exitB l)
  | .conj a b => bindB (semb env a) (semb env b)
  | .disj (.ifthen c t) e => iteB (semb env c) (semb env t) (semb env e)
  | .disj a b => seqB (semb env a) (semb env b)
  | .ifthen c t => iteB (semb env c) (semb env t) failB
  | .neg a => negB (semb env a)

/-- no `cut` and no `cutif` anywhere -/
def plain : Body G → Prop
  | .tt => True
  | .ff => True
  | .cut => False
  | .pred _ => True
  | .cutif _ => False
  | .conj a b => plain a ∧ plain b
  | .disj a b => plain a ∧ plain b
  | .ifthen c t => plain c ∧ plain t
  | .neg a => plain a

/-- every `cutif l` occurring anywhere has `l ≤ n` -/
def lblLe : Body G → Nat → Prop
  | .tt, _ => True
  | .ff, _ => True
  | .cut, _ => True
  | .pred _, _ => True
  | .cutif l, n => l ≤ n
  | .conj a b, n => lblLe a n ∧ lblLe b n
  | .disj a b, n => lblLe a n ∧ lblLe b n
  | .ifthen c t, n => lblLe c n ∧ lblLe t n
  | .neg a, n => lblLe a n

theorem lblLe_mono (b : Body G) (n m : Nat) (h : lblLe b n) (hnm : n ≤ m) : lblLe b m := by
  induction b with
  | tt => trivial
  | ff => trivial
  | cut => trivial
  | pred _ => trivial
  | cutif l => exact Nat.le_trans h hnm
  | conj a b iha ihb => exact ⟨iha h.1, ihb h.2⟩
  | disj a b iha ihb => exact ⟨iha h.1, ihb h.2⟩
  | ifthen c t ihc iht => exact ⟨ihc h.1, iht h.2⟩
  | neg a iha => exact iha h

/-- well-formed bodies: conditions of `->` and operands of `\\+` are plain; a `cutif` marker occurs
only as the left operand of a conjunction -/
def wfb : Body G → Prop
  | .tt => True
  | .ff => True
  | .cut => True
  | .pred _ => True
  | .cutif _ => False
  | .conj (.cutif _) b => wfb b
  | .conj a b => wfb a ∧ wfb b
  | .disj a b => wfb a ∧ wfb b
  | .ifthen c t => plain c ∧ wfb t
  | .neg a => plain a

theorem wfb_of_plain (b : Body G) (h : plain b) : wfb b := by
  induction b with
  | tt => trivial
  | ff => trivial
  | cut => trivial
  | pred _ => trivial
  | cutif l => exact absurd h (by simp [plain])
  | conj a b iha ihb =>
    cases a with
    | cutif l => exact absurd h.1 (by simp [plain])
    | tt => exact ⟨trivial, ihb h.2⟩
    | ff => exact ⟨trivial, ihb h.2⟩
    | cut => exact ⟨trivial, ihb h.2⟩
    | pred g => exact ⟨trivial, ihb h.2⟩
    | conj x y => exact ⟨iha h.1, ihb h.2⟩
    | disj x y => exact ⟨iha h.1, ihb h.2⟩
    | ifthen x y => exact ⟨iha h.1, ihb h.2⟩
    | neg x => exact ⟨iha h.1, ihb h.2⟩
  | disj a b iha ihb => exact ⟨iha h.1, ihb h.2⟩
  | ifthen c t ihc iht => exact ⟨h.1, iht h.2⟩
  | neg a iha => exact h

theorem pure_of_plain (env : G → Beh S) (henv : ∀ g, pureB (env g)) (b : Body G)
    (hp : plain b) : pureB (semb env b) := by
  fun_induction semb env b with
  | case1 => exact pure_yield
  | case2 => exact pure_fail
  | case3 => exact hp.elim
  | case4 g => exact henv g
  | case5 l => exact hp.elim
  | case6 a b iha ihb => exact pure_bind (iha hp.1) (ihb hp.2)
  | case7 c t e ihc iht ihe => exact pure_ite (iht hp.1.2) (ihe hp.2)
  | case8 a b hne iha ihb => exact pure_seq (iha hp.1) (ihb hp.2)
  | case9 c t ihc iht => exact pure_ite (iht hp.2) pure_fail
  | case10 a iha => exact pure_neg _

theorem noexit_of_lbl (env : G → Beh S) (henv : ∀ g, pureB (env g)) (b : Body G) (n l : Nat)
    (hb : lblLe b n) (hl : n < l) : noexitB l (semb env b) := by
  fun_induction semb env b with
  | case1 => exact noexit_yield l
  | case2 => exact noexit_fail l
  | case3 => exact noexit_seq (noexit_yield l) (noexit_cut l)
  | case4 g => exact noexit_of_pure (henv g)
  | case5 l' =>
    have h : l' ≤ n := hb
    exact noexit_seq (noexit_yield l) (noexit_exit (by omega))
  | case6 a b iha ihb => exact noexit_bind (iha hb.1) (ihb hb.2)
  | case7 c t e ihc iht ihe => exact noexit_ite (iht hb.1.2) (ihe hb.2)
  | case8 a b hne iha ihb => exact noexit_seq (iha hb.1) (ihb hb.2)
  | case9 c t ihc iht => exact noexit_ite (iht hb.2) (noexit_fail l)
  | case10 a iha => exact noexit_neg l _

/-! ### target code -/

inductive Stmt (G : Type) where
  | yieldF | yieldT | ret
  | foreach (g : G) (c : List (Stmt G))
  | block (l : Nat) (c : List (Stmt G))
  | brk (l : Nat)

mutual
def sems (env : G → Beh S) : Stmt G → Beh S
  | .yieldF => yieldB
  | .yieldT => yieldB
  | .ret => cutB
  | .foreach g c => bindB (env g) (semc env c)
  | .block l c => blockB l (semc env c)
  | .brk l => exitB l
def semc (env : G → Beh S) : List (Stmt G) → Beh S
  | [] => failB
  | s :: c => seqB (sems env s) (semc env c)
end

theorem semc_append (env : G → Beh S) (x y : List (Stmt G)) :
    semc env (x ++ y) = seqB (semc env x) (semc env y) := by
  induction x with
  | nil => simp only [List.nil_append, semc, seq_fail_left]
  | cons s c ih => simp only [List.cons_append, semc, ih, _root_.seq_assoc]

/-! ### axiom audit -/
#print axioms seq_fail_left
#print axioms seq_fail_right
#print axioms _root_.seq_assoc
#print axioms bind_yield
#print axioms bind_yield_right
#print axioms bind_fail
#print axioms bind_cut
#print axioms bind_exit
#print axioms bind_seq
#print axioms _root_.bind_assoc
#print axioms bind_ite
#print axioms neg_ite
#print axioms ite_block
#print axioms pure_of_plain
#print axioms noexit_of_lbl
#print axioms semc_append
#print axioms pure_yield
#print axioms pure_fail
#print axioms _root_.pure_seq
#print axioms _root_.pure_bind
#print axioms pure_ite
#print axioms pure_neg
#print axioms pure_block
#print axioms noexit_of_pure
#print axioms noexit_yield
#print axioms noexit_fail
#print axioms noexit_cut
#print axioms noexit_exit
#print axioms noexit_seq
#print axioms noexit_bind
#print axioms noexit_ite
#print axioms noexit_neg
#print axioms noexit_block
#print axioms noexit_block_of
#print axioms lblLe_mono
#print axioms wfb_of_plain
