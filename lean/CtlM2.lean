/-
  CtlM2.lean -- model M2: answers are delivered one at a time together with a world `D`;
  the consumer hands back a (possibly changed) world before the producer is resumed.
  Core Lean 4 only (no Mathlib).  Check with `lean CtlM2.lean`.
-/
namespace M2

inductive Status where
  | done | cut | exit (l : Nat)
deriving DecidableEq

/-- resumption: either stopped with a status and the final world, or an answer `s` delivered with
world `d`, after which the consumer hands back a (possibly changed) world -/
inductive Run (S D : Type) where
  | stop (st : Status) (d : D)
  | out (s : S) (d : D) (k : D → Run S D)

abbrev Beh (S D : Type) := S → D → Run S D
variable {S D : Type}

def andThen : Run S D → (Status → D → Run S D) → Run S D
  | .stop st d, k => k st d
  | .out s d r, k => .out s d (fun d' => andThen (r d') k)

def ifDone (f : D → Run S D) : Status → D → Run S D
  | .done, d => f d
  | st, d => .stop st d

def yieldB : Beh S D := fun s d => .out s d (fun d' => .stop .done d')
def failB : Beh S D := fun _ d => .stop .done d
def cutB : Beh S D := fun _ d => .stop .cut d
def exitB (l : Nat) : Beh S D := fun _ d => .stop (.exit l) d
def seqB (a b : Beh S D) : Beh S D := fun s d => andThen (a s d) (ifDone (b s))

def bindR (b : Beh S D) : Run S D → Run S D
  | .stop st d => .stop st d
  | .out t d k => andThen (b t d) (ifDone (fun d' => bindR b (k d')))
def bindB (a b : Beh S D) : Beh S D := fun s d => bindR b (a s d)

theorem andThen_stop (r : Run S D) : andThen r (fun st d => .stop st d) = r := by
  induction r with
  | stop st d => rfl
  | out s d k ih => simp [andThen, ih]

theorem andThen_assoc (r : Run S D) (k1 k2 : Status → D → Run S D) :
    andThen (andThen r k1) k2 = andThen r (fun st d => andThen (k1 st d) k2) := by
  induction r with
  | stop st d => rfl
  | out s d k ih => simp [andThen, ih]

theorem ifDone_andThen (f : D → Run S D) (k : Status → D → Run S D)
    (hk : ∀ st d, st ≠ .done → k st d = .stop st d) :
    (fun st d => andThen (ifDone f st d) k) = ifDone (fun d => andThen (f d) k) := by
  funext st d
  cases st with
  | done => rfl
  | cut => simp [ifDone, andThen, hk]
  | exit l => simp [ifDone, andThen, hk]

theorem ifDone_nondone (f : D → Run S D) : ∀ st d, st ≠ .done → ifDone f st d = .stop st d := by
  intro st d h; cases st <;> simp_all [ifDone]

theorem seq_assoc (x y z : Beh S D) : seqB (seqB x y) z = seqB x (seqB y z) := by
  funext s d
  simp only [seqB]
  rw [andThen_assoc, ifDone_andThen _ _ (ifDone_nondone _)]
  rfl

theorem bind_yield (b : Beh S D) : bindB yieldB b = b := by
  funext s d
  simp only [bindB, yieldB, bindR]
  have : (ifDone (fun d' => (Run.stop Status.done d' : Run S D)) : Status → D → Run S D)
       = fun st d => .stop st d := by
    funext st d; cases st <;> simp [ifDone]
  rw [this, andThen_stop]

/-- distributing bind over what follows a run -/
theorem bindR_andThen (b : Beh S D) (r : Run S D) (f : D → Run S D) :
    bindR b (andThen r (ifDone f)) = andThen (bindR b r) (ifDone (fun d => bindR b (f d))) := by
  induction r with
  | stop st d => cases st <;> simp [andThen, ifDone, bindR]
  | out s d k ih =>
    simp only [andThen, bindR]
    rw [andThen_assoc, ifDone_andThen _ _ (ifDone_nondone _)]
    congr 1
    funext st d'
    cases st <;> simp [ifDone, ih]

theorem bind_seq (x y b : Beh S D) : bindB (seqB x y) b = seqB (bindB x b) (bindB y b) := by
  funext s d
  simp only [bindB, seqB]
  exact bindR_andThen b (x s d) (y s)

theorem bindR_bindR (b c : Beh S D) (r : Run S D) :
    bindR c (bindR b r) = bindR (bindB b c) r := by
  induction r with
  | stop st d => rfl
  | out s d k ih =>
    simp only [bindR, bindB]
    rw [bindR_andThen]
    congr 1
    funext st d'
    cases st <;> simp [ifDone, ih]

theorem bind_assoc (a b c : Beh S D) : bindB (bindB a b) c = bindB a (bindB b c) := by
  funext s d
  simp only [bindB]
  exact bindR_bindR b c (a s d)

/-! ### if-then-else, negation, block -/

/-- first-answer dispatch: run `r`; on its first answer abandon it and continue with `t`,
if it stops without an answer (whatever the status, as in M1) continue with `e` -/
def iteR (t : S → D → Run S D) (e : D → Run S D) : Run S D → Run S D
  | .stop _ d' => e d'
  | .out x d1 _ => t x d1

def iteB (c t e : Beh S D) : Beh S D := fun s d => iteR t (e s) (c s d)

def negB (a : Beh S D) : Beh S D := fun s d =>
  match a s d with
  | .stop _ d' => .out s d' (fun d'' => .stop .done d'')
  | .out _ d1 _ => .stop .done d1

def blockSt (l : Nat) : Status → Status
  | .exit l' => if l' = l then .done else .exit l'
  | st => st

def blockR (l : Nat) (r : Run S D) : Run S D := andThen r (fun st d => .stop (blockSt l st) d)
def blockB (l : Nat) (b : Beh S D) : Beh S D := fun s d => blockR l (b s d)

/-- every stop status reachable in `r` satisfies `P`, whatever worlds the consumer hands back -/
inductive AllStop (P : Status → Prop) : Run S D → Prop where
  | stop {st : Status} {d : D} : P st → AllStop P (.stop st d)
  | out {s : S} {d : D} {k : D → Run S D} : (∀ d', AllStop P (k d')) → AllStop P (.out s d k)

def pureB (c : Beh S D) : Prop := ∀ s d, AllStop (· = .done) (c s d)
def noexitB (l : Nat) (t : Beh S D) : Prop := ∀ s d, AllStop (· ≠ .exit l) (t s d)

/-! ### unit / zero laws -/

theorem ifDone_stop :
    (ifDone (fun d' => (Run.stop Status.done d' : Run S D)) : Status → D → Run S D)
      = fun st d => .stop st d := by
  funext st d; cases st <;> simp [ifDone]

theorem seq_fail_left (x : Beh S D) : seqB failB x = x := by
  funext s d; rfl

theorem seq_fail_right (x : Beh S D) : seqB x failB = x := by
  funext s d
  show andThen (x s d) (ifDone (fun d' => .stop .done d')) = x s d
  rw [ifDone_stop, andThen_stop]

theorem bindR_yield (r : Run S D) : bindR yieldB r = r := by
  induction r with
  | stop st d => rfl
  | out s d k ih => simp [bindR, yieldB, andThen, ifDone, ih]

theorem bind_yield_right (a : Beh S D) : bindB a yieldB = a := by
  funext s d; exact bindR_yield _

theorem bind_fail (b : Beh S D) : bindB failB b = failB := rfl
theorem bind_cut (b : Beh S D) : bindB cutB b = cutB := rfl
theorem bind_exit (b : Beh S D) (l : Nat) : bindB (exitB l) b = exitB l := rfl

/-! ### if-then-else laws -/

theorem bind_ite (c t e k : Beh S D) : bindB (iteB c t e) k = iteB c (bindB t k) (bindB e k) := by
  funext s d
  simp only [bindB, iteB]
  cases c s d <;> rfl

theorem neg_ite (a : Beh S D) : negB a = iteB a failB yieldB := by
  funext s d
  simp only [negB, iteB]
  cases a s d <;> rfl

/-! ### reasoning about reachable stop statuses -/

theorem AllStop.mono {P Q : Status → Prop} (h : ∀ st, P st → Q st) {r : Run S D}
    (hr : AllStop P r) : AllStop Q r := by
  induction hr with
  | stop hp => exact .stop (h _ hp)
  | out _ ih => exact .out ih

/-- two continuations that agree on all reachable statuses give the same run -/
theorem andThen_congr {P : Status → Prop} {r : Run S D} (hr : AllStop P r)
    (k k' : Status → D → Run S D) (h : ∀ st d, P st → k st d = k' st d) :
    andThen r k = andThen r k' := by
  induction hr with
  | stop hp => exact h _ _ hp
  | out _ ih => simp only [andThen]; congr 1; funext d'; exact ih d'

theorem AllStop.andThen {P Q : Status → Prop} {r : Run S D} (hr : AllStop Q r)
    (k : Status → D → Run S D) (hk : ∀ st d, Q st → AllStop P (k st d)) :
    AllStop P (andThen r k) := by
  induction hr with
  | stop hq => exact hk _ _ hq
  | out _ ih => exact .out ih

theorem AllStop.bindR {P : Status → Prop} {b : Beh S D} (hb : ∀ s d, AllStop P (b s d))
    {r : Run S D} (hr : AllStop P r) : AllStop P (bindR b r) := by
  induction hr with
  | stop hp => exact .stop hp
  | out _ ih =>
    refine AllStop.andThen (hb _ _) _ ?_
    intro st d hp
    cases st with
    | done => exact ih d
    | cut => exact .stop hp
    | exit l => exact .stop hp

theorem seq_status (P : Status → Prop) {a b : Beh S D}
    (ha : ∀ s d, AllStop P (a s d)) (hb : ∀ s d, AllStop P (b s d)) :
    ∀ s d, AllStop P (seqB a b s d) := by
  intro s d
  refine AllStop.andThen (ha s d) _ ?_
  intro st d' hp
  cases st with
  | done => exact hb s d'
  | cut => exact .stop hp
  | exit l => exact .stop hp

theorem bind_status (P : Status → Prop) {a b : Beh S D}
    (ha : ∀ s d, AllStop P (a s d)) (hb : ∀ s d, AllStop P (b s d)) :
    ∀ s d, AllStop P (bindB a b s d) :=
  fun s d => AllStop.bindR hb (ha s d)

theorem ite_status (P : Status → Prop) (c : Beh S D) {t e : Beh S D}
    (ht : ∀ s d, AllStop P (t s d)) (he : ∀ s d, AllStop P (e s d)) :
    ∀ s d, AllStop P (iteB c t e s d) := by
  intro s d
  simp only [iteB]
  cases c s d with
  | stop st d' => exact he s d'
  | out x d1 k => exact ht x d1

theorem neg_status (P : Status → Prop) (hd : P .done) (a : Beh S D) :
    ∀ s d, AllStop P (negB a s d) := by
  intro s d
  simp only [negB]
  cases a s d with
  | stop st d' => exact .out (fun _ => .stop hd)
  | out x d1 k => exact .stop hd

theorem pure_yield : pureB (yieldB : Beh S D) := fun _ _ => .out (fun _ => .stop rfl)
theorem pure_fail : pureB (failB : Beh S D) := fun _ _ => .stop rfl
theorem pure_seq {a b : Beh S D} (ha : pureB a) (hb : pureB b) : pureB (seqB a b) :=
  seq_status _ ha hb
theorem pure_bind {a b : Beh S D} (ha : pureB a) (hb : pureB b) : pureB (bindB a b) :=
  bind_status _ ha hb
theorem pure_ite {c t e : Beh S D} (ht : pureB t) (he : pureB e) : pureB (iteB c t e) :=
  ite_status _ c ht he
theorem pure_neg (a : Beh S D) : pureB (negB a) := neg_status (· = .done) rfl a

theorem noexit_of_pure {l : Nat} {a : Beh S D} (ha : pureB a) : noexitB l a :=
  fun s d => (ha s d).mono (by intro st h e; rw [h] at e; exact Status.noConfusion e)
theorem noexit_yield (l : Nat) : noexitB l (yieldB : Beh S D) := noexit_of_pure pure_yield
theorem noexit_fail (l : Nat) : noexitB l (failB : Beh S D) := noexit_of_pure pure_fail
theorem noexit_cut (l : Nat) : noexitB l (cutB : Beh S D) :=
  fun _ _ => .stop (fun h => Status.noConfusion h)
theorem noexit_exit {l l' : Nat} (h : l' ≠ l) : noexitB l (exitB l' : Beh S D) :=
  fun _ _ => .stop (by intro e; apply h; simpa using e)
theorem noexit_seq {l : Nat} {a b : Beh S D} (ha : noexitB l a) (hb : noexitB l b) :
    noexitB l (seqB a b) := seq_status _ ha hb
theorem noexit_bind {l : Nat} {a b : Beh S D} (ha : noexitB l a) (hb : noexitB l b) :
    noexitB l (bindB a b) := bind_status _ ha hb
theorem noexit_ite {l : Nat} {c t e : Beh S D} (ht : noexitB l t) (he : noexitB l e) :
    noexitB l (iteB c t e) := ite_status _ c ht he
theorem noexit_neg (l : Nat) (a : Beh S D) : noexitB l (negB a) := noexit_of_pure (pure_neg a)

theorem blockSt_ne (l : Nat) (st : Status) : blockSt l st ≠ .exit l := by
  cases st with
  | done => intro e; exact Status.noConfusion e
  | cut => intro e; exact Status.noConfusion e
  | exit l' =>
    simp only [blockSt]
    by_cases h : l' = l
    · simp [h]
    · simp only [h, if_false]; intro e; apply h; simpa using e

theorem blockSt_of_ne {l : Nat} {st : Status} (h : st ≠ .exit l) : blockSt l st = st := by
  cases st with
  | done => rfl
  | cut => rfl
  | exit l' =>
    have : l' ≠ l := by intro e; apply h; rw [e]
    simp [blockSt, this]

/-- a block never leaves with its own label -/
theorem noexit_block (l : Nat) (b : Beh S D) : noexitB l (blockB l b) := by
  intro s d
  have all : ∀ r : Run S D, AllStop (fun _ => True) r := by
    intro r; induction r with
    | stop st d => exact .stop trivial
    | out s d k ih => exact .out ih
  exact AllStop.andThen (all (b s d)) _ (fun st d _ => .stop (blockSt_ne l st))

/-- a block does not introduce exits with other labels -/
theorem noexit_block_of {l l' : Nat} {b : Beh S D} (hb : noexitB l' b) :
    noexitB l' (blockB l b) := by
  intro s d
  refine AllStop.andThen (hb s d) _ ?_
  intro st d' h
  refine .stop ?_
  cases st with
  | done => intro e; exact Status.noConfusion e
  | cut => intro e; exact Status.noConfusion e
  | exit l2 =>
    simp only [blockSt]
    by_cases hl : l2 = l
    · simp [hl]
    · simp only [hl, if_false]; exact h

theorem blockR_noexit {l : Nat} {r : Run S D} (h : AllStop (· ≠ .exit l) r) : blockR l r = r := by
  unfold blockR
  rw [andThen_congr h _ (fun st d => .stop st d) (fun st d hst => by rw [blockSt_of_ne hst])]
  exact andThen_stop r

theorem pure_block {l : Nat} {b : Beh S D} (hb : pureB b) : pureB (blockB l b) := by
  intro s d
  show AllStop _ (blockR l (b s d))
  rw [blockR_noexit (noexit_of_pure hb s d)]
  exact hb s d

/-! ### the generated if-then-else code -/

theorem ite_block (l : Nat) (c t e : Beh S D)
    (hc : pureB c) (ht : noexitB l t) (he : noexitB l e) :
    blockB l (seqB (bindB c (seqB t (exitB l))) e) = iteB c t e := by
  funext s d
  have hcs := hc s d
  simp only [blockB, seqB, bindB, iteB]
  cases hcv : c s d with
  | stop st d' =>
    rw [hcv] at hcs
    cases hcs with
    | stop hst =>
      subst hst
      show blockR l (e s d') = e s d'
      exact blockR_noexit (he s d')
  | out x d1 k =>
    show blockR l (andThen (andThen (andThen (t x d1) (ifDone (exitB l x))) _) (ifDone (e s)))
      = t x d1
    unfold blockR
    rw [andThen_assoc, andThen_assoc, andThen_assoc]
    rw [andThen_congr (ht x d1) _ (fun st d => .stop st d)]
    · exact andThen_stop _
    · intro st d' hst
      cases st with
      | done => simp [ifDone, exitB, andThen, blockSt]
      | cut => rfl
      | exit l' =>
        have : l' ≠ l := by intro e; apply hst; rw [e]
        simp [ifDone, andThen, blockSt, this]

/-! ### source syntax -/

inductive Body (G : Type) where
  | tt | ff | cut
  | pred (g : G)
  | cutif (l : Nat)
  | conj (a b : Body G)
  | disj (a b : Body G)
  | ifthen (c t : Body G)
  | neg (a : Body G)

variable {G : Type}

def semb (env : G → Beh S D) : Body G → Beh S D
  | .tt => yieldB
  | .ff => failB
  | .cut => seqB yieldB cutB
  | .pred g => env g
  | .cutif l => seqB yieldB (exitB l)
  | .conj a b => bindB (semb env a) (semb env b)
  | .disj (.ifthen c t) e => iteB (semb env c) (semb env t) (semb env e)
  | .disj a b => seqB (semb env a) (semb env b)
  | .ifthen c t => iteB (semb env c) (semb env t) failB
  | .neg a => negB (semb env a)

/-- no `cut` and no `cutif` anywhere -/
def plain : Body G → Prop
  | .tt => True
  | .ff => True
  | .cut => False
  | .pred _ => True
  | .cutif _ => False
  | .conj a b => plain a ∧ plain b
  | .disj a b => plain a ∧ plain b
  | .ifthen c t => plain c ∧ plain t
  | .neg a => plain a

/-- every `cutif l` occurring anywhere has `l ≤ n` -/
def lblLe : Body G → Nat → Prop
  | .tt, _ => True
  | .ff, _ => True
  | .cut, _ => True
  | .pred _, _ => True
  | .cutif l, n => l ≤ n
  | .conj a b, n => lblLe a n ∧ lblLe b n
  | .disj a b, n => lblLe a n ∧ lblLe b n
  | .ifthen c t, n => lblLe c n ∧ lblLe t n
  | .neg a, n => lblLe a n

theorem lblLe_mono (b : Body G) (n m : Nat) (h : lblLe b n) (hnm : n ≤ m) : lblLe b m := by
  induction b with
  | tt => trivial
  | ff => trivial
  | cut => trivial
  | pred _ => trivial
  | cutif l => exact Nat.le_trans h hnm
  | conj a b iha ihb => exact ⟨iha h.1, ihb h.2⟩
  | disj a b iha ihb => exact ⟨iha h.1, ihb h.2⟩
  | ifthen c t ihc iht => exact ⟨ihc h.1, iht h.2⟩
  | neg a iha => exact iha h

/-- well-formed bodies: conditions of `->` and operands of `\\+` are plain; a `cutif` marker occurs
only as the left operand of a conjunction -/
def wfb : Body G → Prop
  | .tt => True
  | .ff => True
  | .cut => True
  | .pred _ => True
  | .cutif _ => False
  | .conj (.cutif _) b => wfb b
  | .conj a b => wfb a ∧ wfb b
  | .disj a b => wfb a ∧ wfb b
  | .ifthen c t => plain c ∧ wfb t
  | .neg a => plain a

theorem wfb_of_plain (b : Body G) (h : plain b) : wfb b := by
  induction b with
  | tt => trivial
  | ff => trivial
  | cut => trivial
  | pred _ => trivial
  | cutif l => exact absurd h (by simp [plain])
  | conj a b iha ihb =>
    cases a with
    | cutif l => exact absurd h.1 (by simp [plain])
    | tt => exact ⟨trivial, ihb h.2⟩
    | ff => exact ⟨trivial, ihb h.2⟩
    | cut => exact ⟨trivial, ihb h.2⟩
    | pred g => exact ⟨trivial, ihb h.2⟩
    | conj x y => exact ⟨iha h.1, ihb h.2⟩
    | disj x y => exact ⟨iha h.1, ihb h.2⟩
    | ifthen x y => exact ⟨iha h.1, ihb h.2⟩
    | neg x => exact ⟨iha h.1, ihb h.2⟩
  | disj a b iha ihb => exact ⟨iha h.1, ihb h.2⟩
  | ifthen c t ihc iht => exact ⟨h.1, iht h.2⟩
  | neg a iha => exact h

theorem pure_of_plain (env : G → Beh S D) (henv : ∀ g, pureB (env g)) (b : Body G)
    (hp : plain b) : pureB (semb env b) := by
  fun_induction semb env b with
  | case1 => exact pure_yield
  | case2 => exact pure_fail
  | case3 => exact hp.elim
  | case4 g => exact henv g
  | case5 l => exact hp.elim
  | case6 a b iha ihb => exact pure_bind (iha hp.1) (ihb hp.2)
  | case7 c t e ihc iht ihe => exact pure_ite (iht hp.1.2) (ihe hp.2)
  | case8 a b hne iha ihb => exact pure_seq (iha hp.1) (ihb hp.2)
  | case9 c t ihc iht => exact pure_ite (iht hp.2) pure_fail
  | case10 a iha => exact pure_neg _

theorem noexit_of_lbl (env : G → Beh S D) (henv : ∀ g, pureB (env g)) (b : Body G) (n l : Nat)
    (hb : lblLe b n) (hl : n < l) : noexitB l (semb env b) := by
  fun_induction semb env b with
  | case1 => exact noexit_yield l
  | case2 => exact noexit_fail l
  | case3 => exact noexit_seq (noexit_yield l) (noexit_cut l)
  | case4 g => exact noexit_of_pure (henv g)
  | case5 l' =>
    have h : l' ≤ n := hb
    exact noexit_seq (noexit_yield l) (noexit_exit (by omega))
  | case6 a b iha ihb => exact noexit_bind (iha hb.1) (ihb hb.2)
  | case7 c t e ihc iht ihe => exact noexit_ite (iht hb.1.2) (ihe hb.2)
  | case8 a b hne iha ihb => exact noexit_seq (iha hb.1) (ihb hb.2)
  | case9 c t ihc iht => exact noexit_ite (iht hb.2) (noexit_fail l)
  | case10 a iha => exact noexit_neg l _

/-! ### target code -/

inductive Stmt (G : Type) where
  | yieldF | yieldT | ret
  | foreach (g : G) (c : List (Stmt G))
  | block (l : Nat) (c : List (Stmt G))
  | brk (l : Nat)

mutual
def sems (env : G → Beh S D) : Stmt G → Beh S D
  | .yieldF => yieldB
  | .yieldT => yieldB
  | .ret => cutB
  | .foreach g c => bindB (env g) (semc env c)
  | .block l c => blockB l (semc env c)
  | .brk l => exitB l
def semc (env : G → Beh S D) : List (Stmt G) → Beh S D
  | [] => failB
  | s :: c => seqB (sems env s) (semc env c)
end

theorem semc_append (env : G → Beh S D) (x y : List (Stmt G)) :
    semc env (x ++ y) = seqB (semc env x) (semc env y) := by
  induction x with
  | nil => simp only [List.nil_append, semc, seq_fail_left]
  | cons s c ih => simp only [List.cons_append, semc, ih, M2.seq_assoc]

end M2

/-! ### axiom audit -/
#print axioms M2.andThen_assoc
#print axioms M2.seq_fail_left
#print axioms M2.seq_fail_right
#print axioms M2.seq_assoc
#print axioms M2.bind_yield
#print axioms M2.bind_yield_right
#print axioms M2.bind_fail
#print axioms M2.bind_cut
#print axioms M2.bind_exit
#print axioms M2.bind_seq
#print axioms M2.bind_assoc
#print axioms M2.bind_ite
#print axioms M2.neg_ite
#print axioms M2.ite_block
#print axioms M2.pure_yield
#print axioms M2.pure_fail
#print axioms M2.pure_seq
#print axioms M2.pure_bind
#print axioms M2.pure_ite
#print axioms M2.pure_neg
#print axioms M2.pure_block
#print axioms M2.noexit_of_pure
#print axioms M2.noexit_yield
#print axioms M2.noexit_fail
#print axioms M2.noexit_cut
#print axioms M2.noexit_exit
#print axioms M2.noexit_seq
#print axioms M2.noexit_bind
#print axioms M2.noexit_ite
#print axioms M2.noexit_neg
#print axioms M2.noexit_block
#print axioms M2.noexit_block_of
#print axioms M2.pure_of_plain
#print axioms M2.noexit_of_lbl
#print axioms M2.semc_append
#print axioms M2.lblLe_mono
#print axioms M2.wfb_of_plain
