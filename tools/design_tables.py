#!/usr/bin/env python3
"""Regenerate the generated tables of DESIGN.md (between <!-- BEGIN:x --> / <!-- END:x --> markers) from the committed
evidence files and the seeded-change results.   usage: python3 tools/design_tables.py [--write]"""
import json
import os
import re
import sys

VERIF = os.path.dirname(os.path.dirname(os.path.abspath(__file__)))


def short(n):
    for p in ('engine.YP.', 'engine.', 'yp_generator.YPPrologCompiler.', 'yp_prolog_visitor.YPPrologVisitor.', 'yp_generator.'):
        if n.startswith(p):
            return n[len(p):]
    return n


def coverage_table():
    rows = ['| id | level | functions under contract: obligations generated from the real AST (SMT) | obligations by kind (all discharged) | '
            'back ends | bounded stand-ins (cases; never counted as proved) |', '|---|---|---|---|---|---|']
    man = json.load(open(os.path.join(VERIF, 'MANIFEST.json')))
    level = {c['property_id']: c.get('level', '') for c in man.get('checks', [])}
    for i in range(1, 21):
        pid = 'C%02d' % i
        e = json.load(open(os.path.join(VERIF, 'evidence', pid + '.json')))
        c = e['coverage']
        fns = ['`%s` %d' % (short(f['name']), f['obligations']) for f in c.get('functions_under_contract', []) if f.get('obligations')]
        kinds = c.get('by_kind') or {}
        kind_s = ', '.join('%s %d' % (k, v) for k, v in sorted(kinds.items())) or str(c.get('obligations'))
        be = ', '.join('%s %d' % (k, v) for k, v in sorted(c.get('by_backend', {}).items()))
        st = '; '.join('`%s` %s' % (s['script'], s.get('evaluations', '?')) for s in c.get('bounded_standins', []))
        rows.append('| %s | %s | %s | %s (total %s) | %s | %s |' % (pid, level.get(pid, e.get('level', '')), ', '.join(fns) or '-', kind_s,
                                                                  c.get('obligations'), be, st or '-'))
    return '\n'.join(rows)


def seeded_table():
    rows = ['| change | property | what was changed | exit | caught by |', '|---|---|---|---|---|']
    d = os.path.join(VERIF, 'seeded')
    n = ok = 0
    for sid in sorted(os.listdir(d)):
        mp = os.path.join(d, sid, 'meta.json')
        rp = os.path.join(d, sid, 'result.json')
        if not os.path.exists(mp):
            continue
        m = json.load(open(mp))
        r = json.load(open(rp)) if os.path.exists(rp) else {'checks': {}}
        for pid, res in r.get('checks', {}).items():
            n += 1
            lines = res.get('lines', [])
            v = [l for l in lines if l.startswith('VIOLATION')]
            by = '-'
            if v:
                mo = re.search(r'obligation=(\S+)', v[0])
                if mo:
                    ob = mo.group(1)
                    ob = re.sub(r'\[.*$', '', ob)
                    by = 'obligation `%s`' % short(ob) + (' (no-failing-input-found)' if 'no-failing-input-found' in v[0]
                                                           else ' + a failing input from a bounded driver (replayable)')
                else:
                    mo = re.search(r'standin=(\S+)', v[0])
                    by = 'stand-in %s (replayable scenario)' % (('`%s`' % mo.group(1)) if mo else '')
            if res.get('exit') == 1:
                ok += 1
            rows.append('| %s | %s | %s | %s | %s |' % (sid, pid, m['title'].replace('|', '\\|')[:150], res.get('exit'), by))
    rows.append('')
    named = sum(1 for r_ in rows if 'obligation `' in r_)
    only = sum(1 for r_ in rows if 'no-failing-input-found' in r_)
    rows.append('%d of %d seeded changes are reported as a VIOLATION of their property (exit 1); %d of them name a failed obligation of the '
                'deductive part (%d with no concrete input), the other %d are reported through a concrete failing input of a bounded driver '
                'while the deductive part is undecided (the change left the verified subset) or silent.' % (ok, n, named, only, ok - named))
    return '\n'.join(rows)


def harmless_table():
    d = os.path.join(VERIF, 'seeded_harmless')
    rows = ['| rewrite | what | checks run (those that read a rewritten module) | alarms (VIOLATION lines) |', '|---|---|---|---|']
    for sid in sorted(os.listdir(d)):
        mp = os.path.join(d, sid, 'meta.json')
        rp = os.path.join(d, sid, 'result.json')
        if not os.path.exists(mp):
            continue
        m = json.load(open(mp))
        r = json.load(open(rp)) if os.path.exists(rp) else {'checks': {}}
        ran = {p: v.get('exit') for p, v in r.get('checks', {}).items() if not v.get('skipped')}
        viol = [p for p, v in r.get('checks', {}).items() if any(l.startswith('VIOLATION') for l in v.get('lines', []))]
        und = [p for p, x in ran.items() if x == 2]
        rows.append('| %s | %s | %s | %s%s |' % (sid, m.get('title', '')[:140].replace('|', '\\|'), ' '.join(sorted(ran)),
                                                 ' '.join(viol) or 'none', (' (undecided, exit 2: %s)' % ' '.join(und)) if und else ''))
    return '\n'.join(rows)


def assumed_table():
    """sidecar contracts that no check verifies against the function's body (they are assumptions wherever they are used)"""
    sys.path.insert(0, VERIF)
    import importlib
    allc = {}
    for m in ('engine_terms', 'engine_heap', 'engine_atom', 'generator_body', 'generator_clause', 'generator_goal', 'generator_text', 'visitor', 'visitor_parse', 'ast_vars'):
        mod = importlib.import_module('contracts.' + m)
        for n, c in mod.C.items():
            allc.setdefault(n, []).append((m, c))
    verified, used = set(), {}
    for i in range(1, 21):
        e = json.load(open(os.path.join(VERIF, 'evidence', 'C%02d.json' % i)))['coverage']
        verified |= {f['name'] for f in e.get('functions_under_contract', []) if f.get('obligations') and not f.get('error')}
        for n in e.get('callee_contracts_relied_on_but_not_verified_in_this_check', []):
            used.setdefault(n, []).append('C%02d' % i)
    rows = ['| contract | relied on by | note |', '|---|---|---|']
    for n in sorted(allc):
        if n in verified:
            continue
        note = '; '.join(c.notes for _, c in allc[n] if getattr(c, 'notes', ''))[:160]
        rows.append('| `%s` | %s | %s |' % (short(n), ' '.join(sorted(set(used.get(n, [])))) or '-', note.replace('|', '\\|')))
    return '\n'.join(rows)


TABLES = {'assumed': assumed_table, 'coverage': coverage_table, 'seeded': seeded_table, 'harmless': harmless_table}


def main():
    p = os.path.join(VERIF, 'DESIGN.md')
    s = open(p).read()
    for name, fn in TABLES.items():
        b, e = '<!-- BEGIN:%s -->' % name, '<!-- END:%s -->' % name
        if b in s and e in s:
            s = s[:s.index(b) + len(b)] + '\n' + fn() + '\n' + s[s.index(e):]
        elif '--write' not in sys.argv:
            print('## ' + name)
            print(fn())
    if '--write' in sys.argv:
        open(p, 'w').write(s)


if __name__ == '__main__':
    main()
