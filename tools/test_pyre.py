#!/usr/bin/env python3-vt
"""Differential test of vf/pyvc/pyre.py against CPython's re on sample subjects (run with python3-vt)."""
import itertools, re, sys, os
sys.path.insert(0, os.path.dirname(os.path.dirname(os.path.abspath(__file__))))
import z3
from vf.pyvc import pyre

PATS = [r'[A-Za-z_][A-Za-z0-9_]*', r'^[A-Za-z_][A-Za-z0-9_]*$', r'[A-Za-z_]+', r'a|bc', r'(ab)*c?', r'x\.y', r'^a.b$', r'[0-9]+', r'(?:a|b)+$']
ALPH = ['a', 'b', 'c', 'x', 'y', '_', 'A', '0', '9', '.', '\n', '-', ' ']
subjects = [''.join(t) for n in range(0, 4) for t in itertools.product(ALPH, repeat=n)]
bad = 0
for pat in PATS:
    for how in ('fullmatch', 'match', 'search'):
        try:
            r = pyre.translate(pat, how)
        except pyre.Unsupported as e:
            print('unsupported', pat, how, e)
            continue
        s = z3.Solver()
        x = z3.String('x')
        f = z3.parse_smt2_string('(declare-const x String) (assert (str.in_re x %s))' % r)[0]
        for sub in subjects:
            want = bool(getattr(re, how)(pat, sub))
            got = z3.is_true(z3.simplify(z3.substitute(f, (x, z3.StringVal(sub)))))
            if want != got:
                bad += 1
                if bad < 10:
                    print('MISMATCH', repr(pat), how, repr(sub), 'python', want, 'smt', got)
print('subjects', len(subjects), 'patterns', len(PATS), 'mismatches', bad)
sys.exit(1 if bad else 0)
