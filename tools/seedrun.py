#!/usr/bin/env python3
"""Confirm seeded defects and run the checks against them.

  seedrun.py import <dir-with-out-subdirs>...   copy <ID>_<x>/ {patch.diff, demo.py, meta.json} to /verif/seeded/ after confirming
                                                (tests pass with the change, demo fails with it, demo passes without it)
  seedrun.py run [<id> ...] [--props C01,C02]   apply each seeded patch to a scratch worktree of /repo, run ./check <property>
                                                with YLD_REPO_SRC pointing at it, record the outcome in seeded/<id>/result.json
"""
import json
import os
import shutil
import subprocess
import sys

VERIF = os.path.dirname(os.path.dirname(os.path.abspath(__file__)))
SEEDED = os.path.join(VERIF, 'seeded')
PY = '/venv/bin/python'


def sh(cmd, **kw):
    return subprocess.run(cmd, capture_output=True, text=True, **kw)


def scratch(name):
    wt = '/tmp/seedwt-%s' % name
    sh(['git', '-C', '/repo', 'worktree', 'remove', '--force', wt])
    shutil.rmtree(wt, ignore_errors=True)
    r = sh(['git', '-C', '/repo', 'worktree', 'add', '--detach', wt, 'HEAD'])
    assert r.returncode == 0, r.stderr
    return wt


def drop(wt):
    sh(['git', '-C', '/repo', 'worktree', 'remove', '--force', wt])
    shutil.rmtree(wt, ignore_errors=True)


def confirm(src):
    sid = os.path.basename(src.rstrip('/'))
    wt = scratch('c-' + sid)
    env = dict(os.environ, PYTHONPATH=wt + '/src')
    res = dict(id=sid)
    try:
        demo = os.path.join(src, 'demo.py')
        r0 = sh([PY, demo], env=env, cwd=wt, timeout=300)
        res['demo_passes_without_change'] = r0.returncode == 0
        a = sh(['git', '-C', wt, 'apply', os.path.join(src, 'patch.diff')])
        res['patch_applies'] = a.returncode == 0
        t = sh([PY, '-m', 'pytest', '-q', '-p', 'no:cacheprovider', '-x'], env=env, cwd=wt, timeout=600)
        res['tests_pass_with_change'] = t.returncode == 0 and ' passed' in t.stdout and 'failed' not in t.stdout
        res['tests_tail'] = t.stdout.strip().split('\n')[-1]
        r1 = sh([PY, demo], env=env, cwd=wt, timeout=300)
        res['demo_fails_with_change'] = r1.returncode != 0
        res['demo_output_with_change'] = (r1.stdout + r1.stderr)[-600:]
    finally:
        drop(wt)
    res['confirmed'] = all(res.get(k) for k in ('demo_passes_without_change', 'patch_applies', 'tests_pass_with_change', 'demo_fails_with_change'))
    return res


def do_import(dirs):
    for d in dirs:
        for sub in sorted(os.listdir(d)):
            src = os.path.join(d, sub)
            if not os.path.exists(os.path.join(src, 'patch.diff')):
                continue
            res = confirm(src)
            print(json.dumps({k: res[k] for k in ('id', 'confirmed', 'tests_tail')}))
            if not res['confirmed']:
                print('   NOT CONFIRMED', json.dumps(res)[:600])
                continue
            dst = os.path.join(SEEDED, sub)
            os.makedirs(dst, exist_ok=True)
            for f in ('patch.diff', 'demo.py'):
                shutil.copy(os.path.join(src, f), os.path.join(dst, f))
            meta = json.load(open(os.path.join(src, 'meta.json')))
            meta['confirmed_by'] = 'tools/seedrun.py import: scratch worktree of /repo HEAD; 61 tests pass with the patch; demo.py exits 0 without and non-zero with the patch'
            meta['confirmation'] = {k: res[k] for k in res if k != 'id'}
            json.dump(meta, open(os.path.join(dst, 'meta.json'), 'w'), indent=1)


def do_run(ids, props=None):
    ids = ids or sorted(os.listdir(SEEDED))
    for sid in ids:
        d = os.path.join(SEEDED, sid)
        if not os.path.exists(os.path.join(d, 'patch.diff')):
            continue
        meta = json.load(open(os.path.join(d, 'meta.json')))
        plist = props or [meta['property']]
        rp_ = os.path.join(d, 'result.json')
        if os.environ.get('SEED_SKIP_NEWER') and os.path.exists(rp_) and os.path.getmtime(rp_) > float(os.environ['SEED_SKIP_NEWER']):
            continue        # another worker of the same campaign has done this one
        wt = scratch('r%d-' % os.getpid() + sid)
        out = dict(id=sid, checks={})
        try:
            a = sh(['git', '-C', wt, 'apply', os.path.join(d, 'patch.diff')])
            assert a.returncode == 0, a.stderr
            env = dict(os.environ, YLD_REPO_SRC=wt + '/src', VF_WORK='/tmp/vf-work-seed-%d' % os.getpid(), VF_EVIDENCE_DIR='/tmp/vf-evidence-seed-%d' % os.getpid())
            for p in plist:
                r = sh([os.path.join(VERIF, 'check'), p, '--tier', 'quick'], env=env, cwd=VERIF, timeout=3000)
                lines = [l for l in r.stdout.split('\n') if l.startswith(('VIOLATION', 'UNDECIDED', 'KNOWN', p + ':', 'CHECKER'))]
                lines.sort(key=lambda l: not l.startswith('VIOLATION'))
                out['checks'][p] = dict(exit=r.returncode, lines=[l[:300] for l in lines[:8]])
                print(sid, p, 'exit', r.returncode, '|', (lines[0][:160] if lines else ''), flush=True)
        finally:
            drop(wt)
        json.dump(out, open(os.path.join(d, 'result.json'), 'w'), indent=1)
    shutil.rmtree('/tmp/vf-evidence-seed-%d' % os.getpid(), ignore_errors=True)
    shutil.rmtree('/tmp/vf-work-seed-%d' % os.getpid(), ignore_errors=True)   # evidence of the mutated trees is not kept


def do_harmless(ids, props=None):
    """behaviour-preserving rewrites: every check (or --props) must stay quiet (exit 0, or 2 = undecided, never a VIOLATION)"""
    hd = os.path.join(VERIF, 'seeded_harmless')
    allp = props or ['C%02d' % i for i in range(1, 21)]
    # a check can only be affected by a rewrite of a module it reads (recorded by every check in its evidence: modules_read)
    reads = {}
    for p in allp:
        try:
            reads[p] = set(json.load(open(os.path.join(VERIF, 'evidence', p + '.json')))['coverage'].get('modules_read') or [])
        except (OSError, ValueError, KeyError):
            reads[p] = set()
    for sid in ids or sorted(os.listdir(hd)):
        d = os.path.join(hd, sid)
        if not os.path.exists(os.path.join(d, 'patch.diff')):
            continue
        old = json.load(open(os.path.join(d, 'result.json'))) if os.path.exists(os.path.join(d, 'result.json')) else {}
        wt = scratch('h-%d-' % os.getpid() + sid.split('_')[0])
        out = dict(name=sid, behaviour_preserving=True, tests=old.get('tests', ''), checks=dict(old.get('checks', {})) if props else {})
        try:
            a = sh(['git', '-C', wt, 'apply', os.path.join(d, 'patch.diff')])
            assert a.returncode == 0, a.stderr
            t = sh([PY, '-m', 'pytest', '-q', '-p', 'no:cacheprovider'], env=dict(os.environ, PYTHONPATH=wt + '/src'), cwd=wt, timeout=600)
            out['tests'] = t.stdout.strip().split('\n')[-1]
            env = dict(os.environ, YLD_REPO_SRC=wt + '/src', VF_WORK='/tmp/vf-work-seed-%d' % os.getpid(), VF_EVIDENCE_DIR='/tmp/vf-evidence-seed-%d' % os.getpid(),
                       VF_STANDIN_SCALE=os.environ.get('VF_STANDIN_SCALE', '0.15'))
            touched = {os.path.basename(l[6:].split('\t')[0].strip()).replace('.py', '') for l in open(os.path.join(d, 'patch.diff'))
                       if l.startswith('+++ b/')}
            for p in allp:
                if props and reads.get(p) and not (reads[p] & touched):
                    continue
                if not props and reads.get(p) and not (reads[p] & touched):
                    out['checks'][p] = dict(exit=0, lines=[], skipped='reads none of the rewritten modules %s' % sorted(touched))
                    continue
                r = sh([os.path.join(VERIF, 'check'), p, '--tier', 'quick'], env=env, cwd=VERIF, timeout=3000)
                lines = [l for l in r.stdout.split('\n') if l.startswith(('VIOLATION', 'UNDECIDED', 'CHECKER'))]
                out['checks'][p] = dict(exit=r.returncode, lines=[l[:300] for l in lines[:4]])
                if r.returncode != 0:
                    print(sid, p, 'exit', r.returncode, '|', (lines[0][:200] if lines else ''), flush=True)
            print(sid, 'done: non-zero exits', [p for p, v in out['checks'].items() if v['exit'] != 0], flush=True)
        finally:
            drop(wt)
        json.dump(out, open(os.path.join(d, 'result.json'), 'w'), indent=1)
    shutil.rmtree('/tmp/vf-evidence-seed-%d' % os.getpid(), ignore_errors=True)
    shutil.rmtree('/tmp/vf-work-seed-%d' % os.getpid(), ignore_errors=True)


if __name__ == '__main__':
    if sys.argv[1] == 'harmless':
        a = [x for x in sys.argv[2:] if not x.startswith('--')]
        pr = [x.split('=')[1].split(',') for x in sys.argv[2:] if x.startswith('--props=')]
        do_harmless(a, pr[0] if pr else None)
        sys.exit(0)
    if sys.argv[1] == 'import':
        do_import(sys.argv[2:])
    else:
        args = sys.argv[2:]
        props = None
        if '--props' in args:
            i = args.index('--props')
            props = args[i + 1].split(',')
            args = args[:i] + args[i + 2:]
        do_run(args, props)
