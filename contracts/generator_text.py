"""Sidecar contracts: YPPythonCodeGenerator - the text emitted for a YPCode tree is the rendering of spec/render.smt2
(C11, C12: nothing but the templates and the rendered leaves reaches the output; C05/C06: the block/loop/break skeleton).
Every generate_* returns with indentation and loop level as it found them."""
from vf.pyvc.exec import Contract

C = {}


def add(c):
    C[c.name] = c


G = 'yp_generator.YPPythonCodeGenerator.'
KEEP = ['(= {gi} {gi0})', '(= {glv} {glv0})', '(= {gtw} {gtw0})']
MOD = ['gi', 'glv']
A3 = '{gtw0} {gi0} {glv0}'

for meth, sub in (('generate_var', 'XVar'), ('generate_expr', 'XExpr'), ('generate_value', 'XVal'), ('generate_list', 'XList'),
                  ('generate_call', 'XCall')):
    add(Contract(G + meth, 'fn', [('self', 'GSelf'), ('x', 'PX:' + sub)], ret='Str', modifies=MOD,
                 ensures=['(= {result} (rexpr {x}))'] + KEEP))
for meth, sub in (('generate_yield_false', 'PYieldF'), ('generate_yield_true', 'PYieldT'), ('generate_yield_break', 'PReturn'),
                  ('generate_assign', 'PAssign'), ('generate_if', 'PIf'), ('generate_foreach', 'PFor'),
                  ('generate_breakable_block', 'PBlock'), ('generate_break_block', 'PBreak')):
    add(Contract(G + meth, 'fn', [('self', 'GSelf'), ('s', 'PS:' + sub)], ret='Str', modifies=MOD,
                 ensures=['(= {result} (rstmt {s} %s))' % A3] + KEEP))
add(Contract(G + 'generate_break_code', 'fn', [('self', 'GSelf')], ret='Str', modifies=MOD,
             ensures=['(= {result} (breakcode {gtw0} {gi0}))'] + KEEP))
add(Contract(G + 'generate_code_list', 'fn', [('self', 'GSelf'), ('l', 'PSL')], ret='Str', modifies=MOD,
             ensures=['(= {result} (rlist {l} %s))' % A3] + KEEP))
add(Contract(G + 'generate_function', 'fn', [('self', 'GSelf'), ('func', 'PF')], ret='Str', modifies=MOD,
             ensures=['(= {result} (rfunc {func} %s))' % A3] + KEEP))

# the forwarding methods of the YPCode classes
M = 'yp_generator.'
for cls, (sort, sub, meth) in {
        'YPCodeExpr': ('PX', 'XExpr', 'generate_expr'), 'YPCodeVar': ('PX', 'XVar', 'generate_var'), 'YPCodeValue': ('PX', 'XVal', 'generate_value'),
        'YPCodeList': ('PX', 'XList', 'generate_list'), 'YPCodeCall': ('PX', 'XCall', 'generate_call'),
        'YPCodeAssign': ('PS', 'PAssign', ''), 'YPCodeYieldFalse': ('PS', 'PYieldF', ''), 'YPCodeYieldTrue': ('PS', 'PYieldT', ''),
        'YPCodeYieldBreak': ('PS', 'PReturn', ''), 'YPCodeIf': ('PS', 'PIf', ''), 'YPCodeForeach': ('PS', 'PFor', ''),
        'YPCodeBreakableBlock': ('PS', 'PBlock', ''), 'YPCodeBreakBlock': ('PS', 'PBreak', '')}.items():
    add(Contract(M + cls + '.generate', 'fn', [('self', '%s:%s' % (sort, sub)), ('generator', 'GSelf')], ret='Str', modifies=MOD,
                 ensures=['(= {result} (rexpr {self}))' if sort == 'PX' else '(= {result} (rstmt {self} %s))' % A3] + KEEP))
add(Contract(M + 'YPCodeFunction.generate', 'fn', [('self', 'PF'), ('generator', 'GSelf')], ret='Str', modifies=MOD,
             ensures=['(= {result} (rfunc {self} %s))' % A3] + KEEP))
add(Contract(G + 'generate_program', 'fn', [('self', 'GSelf'), ('program', 'PFS')], ret='Str', modifies=MOD,
             ensures=['(= {result} (rprog {program} (seq.len {program}) %s))' % A3] + KEEP))
add(Contract(M + 'YPCodeProgram.generate', 'fn', [('self', 'PFS'), ('generator', 'GSelf')], ret='Str', modifies=MOD,
             ensures=['(= {result} (rprog {self} (seq.len {self}) %s))' % A3] + KEEP))
