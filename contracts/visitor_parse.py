"""Sidecar contracts: the visitor from parse trees to the clause AST (C16 literals, C01 `_`, C06 operators, C12 reserved
goal name).  Parse trees are the datatypes of spec/parse.smt2 (one constructor per grammar alternative, A-EXT-ANTLR).

visitVARIABLE and unquoteString appear here with the ABSTRACTION of the contracts verified in contracts/visitor.py
(same clauses, with the VARIABLE/STRING token classes, `mangle` and the unquoting function left uninterpreted): callers in
this file are verified against these, the functions themselves against the concrete string-theory contracts."""
from vf.pyvc.exec import Contract, LoopSpec

C = {}


def add(c):
    C[c.name] = c


V = 'yp_prolog_visitor.YPPrologVisitor.'
add(Contract(V + 'unquoteString', 'pure', [('self', 'CSelf'), ('s', 'Str')], ret='Str', requires=['(isstrtok {s})'], value='(unq {s})',
             notes='abstraction of contracts/visitor.py unquoteString (unq s = filt s (len s - 1); isstrtok s => len s >= 2)'))
add(Contract(V + 'visitVARIABLE', 'fn', [('self', 'CSelf'), ('var', 'Token')], ret='TA', modifies=['avc'],
             requires=['(isvartok {var})', '(>= {avc} 0)'],
             ensures=['(= {result} (varast {var} {avc0}))', '(= {avc} (+ {avc0} (vcnt {var})))'],
             notes='abstraction of contracts/visitor.py visitVARIABLE (isvartok = VARIABLE token class)'))

add(Contract(V + 'visitAtom', 'fn', [('self', 'CSelf'), ('ctx', 'TT')], ret='TA',
             requires=['(atomkind {ctx})', '(ttwf {ctx})'],
             ensures=['(= {result} (tast {ctx} 0))']))
add(Contract(V + 'visitTermlist', 'fn', [('self', 'CSelf'), ('ctx', 'TTL')], ret='TAL', modifies=['avc'],
             requires=['(ttwfl {ctx})', '(ttsupl {ctx})', '(>= {avc} 0)'],
             ensures=['(= {result} (tastl {ctx} {avc0}))', '(= {avc} (+ {avc0} (tcntl {ctx})))'],
             ghost={'comprehension': ('tastl', 'tcntl')}))
add(Contract(V + 'visitFunctor', 'fn', [('self', 'CSelf'), ('ctx', 'TT:TTFun')], ret='TA', modifies=['avc'],
             requires=['(ttwf {ctx})', '(ttsup {ctx})', '(>= {avc} 0)'],
             ensures=['(= {result} (tast {ctx} {avc0}))', '(= {avc} (+ {avc0} (tcnt {ctx})))']))
add(Contract(V + 'visitTerm', 'fn', [('self', 'CSelf'), ('ctx', 'TT')], ret='TA', modifies=['avc'],
             # the tree is a derivation of the `term` rule, without the two unsupported forms (name/arity, numeral functor)
             requires=['(ttwf {ctx})', '(ttsup {ctx})', '(>= {avc} 0)'],
             # every alternative denotes the term of the property statement; `_` are numbered left to right
             ensures=['(= {result} (tast {ctx} {avc0}))', '(= {avc} (+ {avc0} (tcnt {ctx})))'],
             ghost={'fold_spec': '(pairs {l} {init})'}))

# ---- goals and bodies ----------------------------------------------------------------------------------------------
add(Contract(V + 'visitTermpredicate', 'fn', [('self', 'CSelf'), ('ctx', 'TT')], ret='Body', modifies=['avc'],
             requires=['(ttwf {ctx})', '(ttsup {ctx})', '(>= {avc} 0)'],
             raises={'CompilerError': None},
             # whatever is accepted is an ordinary goal: compile_body will not read it as its internal marker
             ensures=['(= {result} (BPred (predid (functorof (tast {ctx} {avc0})))))', '(= {avc} (+ {avc0} (tcnt {ctx})))']))
add(Contract(V + 'visitSimplepredicate', 'fn', [('self', 'CSelf'), ('ctx', 'SP')], ret='Body', modifies=['avc'],
             requires=['(spwf {ctx})', '(>= {avc} 0)'],
             raises={'CompilerError': None},
             ensures=['(= {result} (spbody {ctx} {avc0}))', '(= {avc} (+ {avc0} (spcnt {ctx})))']))
add(Contract(V + 'visitPredicateexpression', 'fn', [('self', 'CSelf'), ('ctx', 'PE')], ret='Body', modifies=['avc'],
             requires=['(wfpe {ctx})', '(>= {avc} 0)'],
             raises={'CompilerError': None},
             ensures=['(= {result} (pebody {ctx} {avc0}))', '(= {avc} (+ {avc0} (pecnt {ctx})))']))

# ---- clauses (C11, C12): the head of every accepted clause is an ordinary goal whose name is a Python identifier (it becomes
#      part of the name of a function definition); a fact has the body `true`
add(Contract(V + 'visitClause', 'fn', [('self', 'CSelf'), ('ctx', 'CL')], ret='CA', modifies=['avc'],
             requires=['(clwf {ctx})', '(>= {avc} 0)'],
             raises={'CompilerError': None},
             ensures=['(= {result} (caof {ctx} {avc0}))',
                      '((_ is BPred) (cahead {result}))',
                      '(str.in_re (tafname (predta (pid (cahead {result})))) IDENT)',
                      '(= {avc} (+ {avc0} (clcnt {ctx})))']))

# ---- programs: clauses are grouped by (name, arity) of their head, keys in first-occurrence order, clauses in source order ----
add(Contract(V + 'visitDirective', 'fn', [('self', 'CSelf'), ('ctx', 'SP')], ret='NonClause', modifies=['avc'],
             requires=['(spwf {ctx})', '(>= {avc} 0)'], raises={'CompilerError': None},
             ensures=['(= {avc} (+ {avc0} (spcnt {ctx})))'],
             notes='assumed: the generated prologVisitor.visitDirective = visitChildren visits the one simplepredicate child (A-EXT-ANTLR)'))
add(Contract(V + 'visitClauseordirective', 'fn', [('self', 'CSelf'), ('ctx', 'CD')], ret='CAOpt', modifies=['avc'],
             requires=['(cdwf {ctx})', '(>= {avc} 0)'], raises={'CompilerError': None},
             ensures=['(= {result.isclause} ((_ is CDClause) {ctx}))',
                      '(=> ((_ is CDClause) {ctx}) (= {result} (caof (cdcl {ctx}) {avc0})))',
                      # an accepted clause has an ordinary goal with an identifier name as its head
                      '(=> ((_ is CDClause) {ctx}) (and ((_ is BPred) (cahead {result})) (str.in_re (tafname (predta (pid (cahead {result})))) IDENT)))',
                      '(= {avc} (+ {avc0} (cdcnt {ctx})))']))
_PGWF = '(forall ((j Int)) (! (=> (and (<= 0 j) (< j (seq.len {ctx}))) (cdwf (seq.nth {ctx} j))) :pattern ((seq.nth {ctx} j))))'
add(Contract(V + 'visitProgram', 'fn', [('self', 'CSelf'), ('ctx', 'PG')], ret='PDict', modifies=['avc'],
             requires=[_PGWF, '(>= {avc} 0)'], raises={'CompilerError': None},
             ensures=['(= {result.keys} (pgkeys {ctx} (seq.len {ctx}) {avc0}))', '(= {result.vals} (pgvals {ctx} (seq.len {ctx}) {avc0}))',
                      '(= {avc} (pgavc {ctx} (seq.len {ctx}) {avc0}))'],
             loops={0: LoopSpec(['(= {clauses.keys} (pgkeys {ctx} {k} {avc0}))', '(= {clauses.vals} (pgvals {ctx} {k} {avc0}))',
                                 '(= {avc} (pgavc {ctx} {k} {avc0}))', '(>= {avc} 0)'])}))
