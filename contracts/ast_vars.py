"""Sidecar contracts: the `variables` properties of the AST classes of yp_prolog_visitor (C01, C06: every variable of a clause -
also one that occurs only under a negation, in a branch or inside a list - is declared) against spec/astvars.smt2."""
from vf.pyvc.exec import Contract

C = {}


def add(c):
    C[c.name] = c


M = 'yp_prolog_visitor.'
EMPTY = '(as seq.empty SS)'
for cls, ctor in (('TruePredicate', 'BTrue'), ('FailPredicate', 'BFail'), ('CutPredicate', 'BCut')):
    add(Contract(M + cls + '.variables', 'fn', [('self', 'Body:' + ctor)], ret='SS', ensures=['(= {result} (bodyvars {self}))', '(= {result} %s)' % EMPTY]))
add(Contract(M + 'Predicate.variables', 'fn', [('self', 'Body')], ret='SS', requires=['(or ((_ is BPred) {self}) ((_ is BCutIf) {self}))'],
             ensures=['(= {result} (bodyvars {self}))']))
for cls, ctor in (('ConjunctionPredicate', 'BConj'), ('DisjunctionPredicate', 'BDisj'), ('IfThenPredicate', 'BIfThen'), ('NegationPredicate', 'BNeg')):
    add(Contract(M + cls + '.variables', 'fn', [('self', 'Body:' + ctor)], ret='SS', ensures=['(= {result} (bodyvars {self}))']))
for cls, ctor in (('NumeralTerm', 'TANum'), ('VariableTerm', 'TAVar'), ('ListTerm', 'TAListT'), ('ListPairTerm', 'TAPair'), ('Atom', 'TAAtom'),
                  ('Functor', 'TAFun')):
    add(Contract(M + cls + '.variables', 'fn', [('self', 'TA:' + ctor)], ret='SS', ensures=['(= {result} (tavars {self}))']))
