"""Sidecar contracts: yp_generator.YPPrologCompiler, clause heads and expressions (C01, C16).

Specification vocabulary: spec/control.smt2 (section "Clause heads"): `unified a j` = position j of the head is unified
(its argument is not a plain variable, or that variable occurs at more than one top-level position), otherwise it is
aliased to argN; `aliases`, `wrap` give the emitted code; `cexpr` the constructor-call expression of a source term.
"""
from vf.pyvc.exec import Contract, LoopSpec
from contracts.generator_body import C as BODY

C = dict(BODY)


def add(c):
    C[c.name] = c


P = 'yp_generator.YPPrologCompiler.'
# the state of self.head_args_by_pos that find_clause_head_variable_arguments establishes for `args`
HP_FINAL = ['(= {hplen} (talen %s))',
            '(forall ((j Int)) (! (=> (and (<= 0 j) (< j (talen %s))) (= (select {hpn} j) (unified %s j))) :pattern ((select {hpn} j))))',
            '(forall ((j Int)) (! (=> (and (<= 0 j) (< j (talen %s)) (not (unified %s j))) (= (select {hp} j) (tavname (tanth %s j)))) :pattern ((select {hp} j))))']


def hp_final(a):
    return [t.replace('%s', a) for t in HP_FINAL]


_NAMES = '(forall ((j Int)) (! (=> (and (<= 0 j) (< j (talen {args})) ((_ is TAVar) (tanth {args} j))) (not (= (tavname (tanth {args} j)) ""))) :pattern ((tanth {args} j))))'
add(Contract(P + 'find_clause_head_variable_arguments', 'fn', [('self', 'CSelf'), ('args', 'TAL')], ret='None',
             modifies=['hp', 'hpn', 'hplen'],
             requires=[_NAMES],           # variable names are never empty (VARIABLE token rule)
             ensures=hp_final('{args}'),
             loops={
                 0: LoopSpec(['(= {hplen} {k})',
                              '(forall ((j Int)) (! (=> (and (<= 0 j) (< j {k})) (= (select {hpn} j) (not ((_ is TAVar) (tanth {args} j))))) :pattern ((select {hpn} j))))',
                              '(forall ((j Int)) (! (=> (and (<= 0 j) (< j {k}) ((_ is TAVar) (tanth {args} j))) (= (select {hp} j) (tavname (tanth {args} j)))) :pattern ((select {hp} j))))',
                              '(forall ((n String)) (! (= (select {varcount} n) (ite (= (cnt {args} n {k}) 0) (- 1) (cnt {args} n {k}))) :pattern ((select {varcount} n))))']),
                 1: LoopSpec(['(= {hplen} (talen {args}))',
                              '(forall ((n String)) (! (= (select {varcount} n) (ite (= (cnt {args} n (talen {args})) 0) (- 1) (cnt {args} n (talen {args})))) :pattern ((select {varcount} n))))',
                              '(forall ((j Int)) (! (=> (and (<= 0 j) (< j {k})) (= (select {hpn} j) (unified {args} j))) :pattern ((select {hpn} j))))',
                              '(forall ((j Int)) (! (=> (and (<= {k} j) (< j (talen {args}))) (= (select {hpn} j) (not ((_ is TAVar) (tanth {args} j))))) :pattern ((select {hpn} j))))',
                              '(forall ((j Int)) (! (=> (and (<= 0 j) (< j (talen {args})) ((_ is TAVar) (tanth {args} j))) (= (select {hp} j) (tavname (tanth {args} j)))) :pattern ((select {hp} j))))']),
             }))

add(Contract(P + 'get_argument_variable', 'pure', [('self', 'CSelf'), ('i', 'Int')], ret='Str', value='(argname {i})'))

add(Contract(P + 'compile_clause_head_variable_arguments', 'fn', [('self', 'CSelf'), ('args', 'TAL')], ret='Code',
             requires=hp_final('{args}'),
             # one alias assignment `V = argN` per aliased position, in position order
             ensures=['(= {result} (aliases {args} (talen {args})))'],
             loops={0: LoopSpec(['(= {code} (aliases {args} {k}))'])}))

add(Contract(P + 'compile_expression', 'fn', [('self', 'CSelf'), ('expr', 'TA'), ('brackets', 'Opt:Int:0')], ret='CE',
             ensures=['(= {result} (cexpr {expr}))'], raises={'CompilerError': None}, maps='cexprl'))
add(Contract(P + 'compile_list', 'fn', [('self', 'CSelf'), ('expr', 'TA:TAListT'), ('brackets', 'Opt:Int:0')], ret='CE',
             ensures=['(= {result} (cexpr {expr}))'], raises={'CompilerError': None}))
add(Contract(P + 'compile_unification', 'fn', [('self', 'CSelf'), ('var', 'Str'), ('val', 'TA'), ('code', 'Code')], ret='Code',
             ensures=['(= {result} (ccons (SUnify {var} (cexpr {val}) {code}) cnil))'], raises={'CompilerError': None}))

add(Contract(P + 'compile_arg_list_unification', 'fn', [('self', 'CSelf'), ('functorargs', 'TAL'), ('bodycode', 'Code')], ret='Code',
             requires=hp_final('{functorargs}'),
             # head arguments are unified left to right: position 1 outermost, the body innermost; aliased positions have no loop
             ensures=['(= {result} (wrap {functorargs} 0 {bodycode}))'],
             raises={'CompilerError': None},
             loops={0: LoopSpec(['(= {code} (wrap {functorargs} (- (talen {functorargs}) {k}) {bodycode}))'])}))

add(Contract(P + 'compile_variable_declaration', 'fn', [('self', 'CSelf'), ('var', 'Str')], ret='Stmt',
             ensures=['(= {result} (SDecl {var}))']))
