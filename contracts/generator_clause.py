"""Sidecar contracts: yp_generator.YPPrologCompiler, clause heads and expressions (C01, C16).

Specification vocabulary: spec/control.smt2 (section "Clause heads"): `unified a j` = position j of the head is unified
(its argument is not a plain variable, or that variable occurs at more than one top-level position), otherwise it is
aliased to argN; `aliases`, `wrap` give the emitted code; `cexpr` the constructor-call expression of a source term.
"""
from vf.pyvc.exec import Contract, LoopSpec
from contracts.generator_body import C as BODY

C = dict(BODY)


def add(c):
    C[c.name] = c


P = 'yp_generator.YPPrologCompiler.'
# the state of self.head_args_by_pos that find_clause_head_variable_arguments establishes for `args`
HP_FINAL = ['(= {hplen} (talen %s))',
            '(forall ((j Int)) (! (=> (and (<= 0 j) (< j (talen %s))) (= (select {hpn} j) (unified %s j))) :pattern ((select {hpn} j))))',
            '(forall ((j Int)) (! (=> (and (<= 0 j) (< j (talen %s)) (not (unified %s j))) (= (select {hp} j) (tavname (tanth %s j)))) :pattern ((select {hp} j))))']


def hp_final(a):
    return [t.replace('%s', a) for t in HP_FINAL]


_NAMES = '(forall ((j Int)) (! (=> (and (<= 0 j) (< j (talen {args})) ((_ is TAVar) (tanth {args} j))) (not (= (tavname (tanth {args} j)) ""))) :pattern ((tanth {args} j))))'
add(Contract(P + 'find_clause_head_variable_arguments', 'fn', [('self', 'CSelf'), ('args', 'TAL')], ret='None',
             modifies=['hp', 'hpn', 'hplen'],
             requires=[_NAMES],           # variable names are never empty (VARIABLE token rule)
             ensures=hp_final('{args}'),
             loops={
                 0: LoopSpec(['(= {hplen} {k})',
                              '(forall ((j Int)) (! (=> (and (<= 0 j) (< j {k})) (= (select {hpn} j) (not ((_ is TAVar) (tanth {args} j))))) :pattern ((select {hpn} j))))',
                              '(forall ((j Int)) (! (=> (and (<= 0 j) (< j {k}) ((_ is TAVar) (tanth {args} j))) (= (select {hp} j) (tavname (tanth {args} j)))) :pattern ((select {hp} j))))',
                              '(forall ((n String)) (! (= (select {varcount} n) (ite (= (cnt {args} n {k}) 0) (- 1) (cnt {args} n {k}))) :pattern ((select {varcount} n))))']),
                 1: LoopSpec(['(= {hplen} (talen {args}))',
                              '(forall ((n String)) (! (= (select {varcount} n) (ite (= (cnt {args} n (talen {args})) 0) (- 1) (cnt {args} n (talen {args})))) :pattern ((select {varcount} n))))',
                              '(forall ((j Int)) (! (=> (and (<= 0 j) (< j {k})) (= (select {hpn} j) (unified {args} j))) :pattern ((select {hpn} j))))',
                              '(forall ((j Int)) (! (=> (and (<= {k} j) (< j (talen {args}))) (= (select {hpn} j) (not ((_ is TAVar) (tanth {args} j))))) :pattern ((select {hpn} j))))',
                              '(forall ((j Int)) (! (=> (and (<= 0 j) (< j (talen {args})) ((_ is TAVar) (tanth {args} j))) (= (select {hp} j) (tavname (tanth {args} j)))) :pattern ((select {hp} j))))']),
             }))

add(Contract(P + 'get_argument_variable', 'pure', [('self', 'CSelf'), ('i', 'Int')], ret='Str', value='(argname {i})'))

add(Contract(P + 'compile_clause_head_variable_arguments', 'fn', [('self', 'CSelf'), ('args', 'TAL')], ret='Code',
             requires=hp_final('{args}'),
             # one alias assignment `V = argN` per aliased position, in position order
             ensures=['(= {result} (aliases {args} (talen {args})))'],
             loops={0: LoopSpec(['(= {code} (aliases {args} {k}))'])}))

# a term that is compiled without CompilerError fits: the code's `brackets` argument counts every bracket the emitted constructor
# calls open around a sub-term (spec `fits`); element-wise over an argument list: `fitsl` (the comprehension lift states it per element)
add(Contract(P + 'compile_expression', 'fn', [('self', 'CSelf'), ('expr', 'TA'), ('brackets', 'Opt:Int:0')], ret='CE',
             ensures=['(= {result} (cexpr {expr}))', '(fits {expr} {brackets})'], raises={'CompilerError': None}, maps='cexprl',
             ghost={'maps_ensures': ['(fitsl {l} {arg1})']}))
add(Contract(P + 'compile_list', 'fn', [('self', 'CSelf'), ('expr', 'TA:TAListT'), ('brackets', 'Opt:Int:0')], ret='CE',
             requires=['(<= {brackets} 180)'],       # compile_expression calls it behind its own guard
             ensures=['(= {result} (cexpr {expr}))', '(fits {expr} {brackets})'], raises={'CompilerError': None}))
add(Contract(P + 'compile_unification', 'fn', [('self', 'CSelf'), ('var', 'Str'), ('val', 'TA'), ('code', 'Code')], ret='Code',
             ensures=['(= {result} (ccons (SUnify {var} (cexpr {val}) {code}) cnil))'], raises={'CompilerError': None}))

add(Contract(P + 'compile_arg_list_unification', 'fn', [('self', 'CSelf'), ('functorargs', 'TAL'), ('bodycode', 'Code')], ret='Code',
             requires=hp_final('{functorargs}'),
             # head arguments are unified left to right: position 1 outermost, the body innermost; aliased positions have no loop
             ensures=['(= {result} (wrap {functorargs} 0 {bodycode}))'],
             raises={'CompilerError': None},
             loops={0: LoopSpec(['(= {code} (wrap {functorargs} (- (talen {functorargs}) {k}) {bodycode}))'])}))

add(Contract(P + 'compile_variable_declaration', 'fn', [('self', 'CSelf'), ('var', 'Str')], ret='Stmt',
             ensures=['(= {result} (SDecl {var}))']))

C[P + 'compile_variable_declaration'].maps = '-'
C[P + 'compile_variable_declaration'].ghost['maps_ss'] = 'decls'

add(Contract(P + 'push_bound_vars', 'fn', [('self', 'CSelf'), ('variables', 'SS')], ret='None', modifies=['bvs'],
             requires=['((_ is bvpush) {bvs})'],
             ensures=['(= {bvs} (bvpush (seq.++ (bvtop {bvs0}) {variables}) {bvs0}))']))
add(Contract(P + 'pop_bound_vars', 'fn', [('self', 'CSelf')], ret='None', modifies=['bvs'],
             requires=['((_ is bvpush) {bvs})'], ensures=['(= {bvs} (bvrest {bvs0}))']))
add(Contract(P + 'filter_free_variables', 'fn', [('self', 'CSelf'), ('variables', 'SS')], ret='SS',
             requires=['((_ is bvpush) {bvs})'],
             # the variables that are not bound yet, each once, in order of first occurrence
             ensures=['(= {result} (sdedupe (sminus {variables} (bvtop {bvs}))))']))
add(Contract(P + 'compile_free_variable_declarations', 'fn', [('self', 'CSelf'), ('variables', 'SS')], ret='Code',
             ensures=['(= {result} (decls {variables}))']))
add(Contract(P + 'nesting_depth', 'fn', [('self', 'CSelf'), ('code', 'Code')], ret='Int', ensures=['(= {result} (ndepth {code}))'],
             loops={0: LoopSpec(['(= {depth} (ndk {code} {k}))'])}))

_A = '(aliasnames {clause.hargs} (talen {clause.hargs}))'
_HF = '(sdedupe (sminus (tavarsl {clause.hargs}) (seq.++ (bvtop {bvs0}) ' + _A + ')))'
_BF = '(sdedupe (sminus (bodyvars {clause.body}) (seq.++ (seq.++ (bvtop {bvs0}) ' + _A + ') ' + _HF + ')))'
add(Contract(P + 'compile_function_body', 'fn', [('self', 'CSelf'), ('clause', 'Clause')], ret='Code',
             modifies=['hp', 'hpn', 'hplen', 'bvs', 'cic'],
             requires=['((_ is bvpush) {bvs})', '(wfb {clause.body})', '(lblle {clause.body} {cic})',
                       _NAMES.replace('{args}', '{clause.hargs}')],
             raises={'CompilerError': None},
             # aliases for the once-occurring plain head variables; then ONE declaration for every other variable of the head, then for
             # every further variable of the body (each once, before any loop); then the head unifications, left to right, around the body
             # ({body_code} is the local that holds the result of compile_body: its meaning is the body's, by compile_body's contract)
             ensures=['(= (semc {body_code}) (semb {clause.body}))',
                      # an accepted clause nests at most 19 blocks (plus the function's own wrapper loop: 20, CPython's limit - A-CPY-LIMITS)
                      '(< (ndepth (wrap {clause.hargs} 0 {body_code})) 20)',
                      '(= {result} (capp (capp (capp (aliases {clause.hargs} (talen {clause.hargs})) (decls ' + _HF + ')) (decls ' + _BF + '))'
                      ' (wrap {clause.hargs} 0 {body_code})))',
                      '(= {bvs} {bvs0})']))


# get_free_variables(expr): expr is the head functor or the body; both expose `.variables`
add(Contract(P + 'get_free_variables', 'fn', [('self', 'CSelf'), ('expr', 'HasVars')], ret='SS',
             requires=['((_ is bvpush) {bvs})'],
             ensures=['(= {result} (sdedupe (sminus {expr.variables} (bvtop {bvs}))))']))


# ---- program level (C11): exactly one function per dictionary key, named by the key, with parameters arg1..argN ------------
add(Contract(P + 'compile_function', 'fn', [('self', 'CSelf'), ('func', 'PK'), ('body', 'Any')], ret='FN',
             requires=['(>= (pkarity {func}) 0)'],
             ensures=['(= {result} (fnof {func}))'],
             ghost={'range_map': 'argnames'}))
add(Contract(P + 'compile_program', 'fn', [('self', 'CSelf'), ('program', 'ProgDict')], ret='FNS',
             # A-PY-DICTORDER: items() enumerates the entries in insertion order; the keys of a dict are distinct by construction
             requires=['(forall ((j Int)) (! (=> (and (<= 0 j) (< j (seq.len {program}))) (>= (pkarity (seq.nth {program} j)) 0)) :pattern ((seq.nth {program} j))))'],
             ensures=['(= {result} (progfns {program} (seq.len {program})))'],
             loops={0: LoopSpec(['(= {funcs} (progfns {program} {k}))'])}))
