"""Sidecar contracts: yp_generator.YPPrologCompiler, clause bodies (C01, C05, C06).

compile_body: the emitted code tree denotes the body (`semc result == semb body`), for every body
that is well formed (spec/control.smt2: wfb) and whose $CUTIF labels are at most the label counter.
The top-level equation is the property statement: semb is standard Prolog control semantics.
"""
from vf.pyvc.exec import Contract, LoopSpec

C = {}


def add(c):
    C[c.name] = c


add(Contract('yp_generator.YPPrologCompiler.compile_body', 'fn', [('self', 'CSelf'), ('body', 'Body')], ret='Code',
             requires=['(wfb {body})', '(lblle {body} {cic})'],
             ensures=['(= (semc {result}) (semb {body}))', '(>= {cic} {cic0})'],
             modifies=['cic']))
add(Contract('yp_generator.YPPrologCompiler.compile_predicate', 'fn', [('self', 'CSelf'), ('pred', 'Body:BPred'), ('code', 'Code')],
             ret='Code',
             ensures=['(= {result} (ccons (SForeach {pred} {code}) cnil))'],
             modifies=[]))
add(Contract('yp_generator.YPPrologCompiler.get_cut_if_label', 'fn', [('self', 'CSelf')], ret='Label',
             ensures=['(= {cic} (+ {cic0} 1))', '(= {result} {cic})'],
             modifies=['cic']))
