"""Sidecar contract of compile_predicate at the level of the emitted call (C01, C05, C06, C09).

In contracts/generator_body.py a goal loop is the abstract statement (SForeach <goal> <code>) and compile_predicate is *assumed*
to build it. This module pins what that statement concretely is: one loop over  query(<name of the goal>, [<the compiled
arguments, in order>])  around the code for the rest of the body - verified against the real body of compile_predicate.
"""
from vf.pyvc.exec import Contract
from contracts.generator_clause import C as CLAUSE

C = dict(CLAUSE)
P = 'yp_generator.YPPrologCompiler.'
C[P + 'compile_predicate'] = Contract(
    P + 'compile_predicate', 'fn', [('self', 'CSelf'), ('pred', 'PredAst'), ('code', 'Code')], ret='Code',
    ensures=['(= {result} (ccons (SQuery (tafname {pred}) (cexprl (tafargs {pred})) {code}) cnil))'],
    raises={'CompilerError': None},
    notes='the concrete reading of (SForeach goal code): verified; contracts/generator_body.py uses the abstract form')
