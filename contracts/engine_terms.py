"""Sidecar contracts: engine.py, dereferencing and unification family (C02, C03, C13, C15).

Keyed by module.qualname; loops by ordinal.  Expressions are SMT-LIB over spec/terms.smt2 with
{placeholders} for parameters, locals, `S` (current store), `S0` (store at entry), `result`,
`k` (completed iterations of a range loop), `loopN_pre_store` (store when loop N is reached).
Top-level postconditions are taken from the property statements (C02: the answer is `su`, the
textbook unifier; C15: get_value is `resolve`), not from the code.
"""
from vf.pyvc.exec import Contract, LoopSpec

C = {}


def add(c):
    C[c.name] = c


# ---- dereferencing (C15) ---------------------------------------------------------------------
add(Contract('engine.get_value', 'pure', [('v', 'Term')], ret='Term',
             value='(resolve {v} {S})', maps='resolvel'))
add(Contract('engine.Atom.get_value', 'pure', [('self', 'Term:TAtom')], ret='Term',
             value='(resolve {self} {S})'))
add(Contract('engine.Variable.get_value', 'pure', [('self', 'Term:TVar')], ret='Term',
             value='(resolve {self} {S})'))
add(Contract('engine.Functor.get_value', 'pure', [('self', 'Term:TFun')], ret='Term',
             value='(resolve {self} {S})'))

add(Contract('engine.Atom.name', 'pure', [('self', 'Term:TAtom')], ret='Str', value='(aname {self})'))

# ---- unification (C02) and finalisation (C03) --------------------------------------------------
add(Contract('engine.unify', 'iterfn', [('term1', 'Term'), ('term2', 'Term')], ret='Iter',
             spec='(su {term1} {term2} {S0})'))
add(Contract('engine.Atom.unify', 'iterfn', [('self', 'Term:TAtom'), ('term', 'Term')], ret='Iter',
             spec='(sum {self} {term} {S0})'))
add(Contract('engine.Functor.unify', 'iterfn', [('self', 'Term:TFun'), ('term', 'Term')], ret='Iter',
             spec='(sum {self} {term} {S0})'))
add(Contract('engine.Variable.unify', 'semidet-gen', [('self', 'Term:TVar'), ('term', 'Term')], ret='Iter',
             spec='(sum {self} {term} {S0})'))
add(Contract('engine.builtin_eq', 'semidet-gen', [('arg1', 'Term'), ('arg2', 'Term')], ret='Iter',
             spec='(su {arg1} {arg2} {S0})'))

_MS = '(ite {got_match} {num_iterators} (- {num_iterators} 1))'
add(Contract(
    'engine.unify_arrays', 'semidet-gen', [('array1', 'TList'), ('array2', 'TList')], ret='Iter',
    spec='(sua {array1} {array2} {S0})',
    loops={
        0: LoopSpec([
            '(= {num_iterators} {k})',
            '{got_match}',
            '(= {iterators.len} (len {array1}))',
            '(= (len {array1}) (len {array2}))',
            '(= {S} (chain {iterators} {k} {S0}))',
            '(= (sulk {array1} {array2} 0 {S0}) (sulk {array1} {array2} {k} {S}))',
            # every opened sub-unification is suspended at its answer; stores are chained
            '(forall ((j Int)) (! (=> (and (<= 0 j) (< j {k})) (= (select {ist} (select {iterators} j)) SUSP)) :pattern ((select {iterators} j))))',
            '(forall ((j Int)) (! (=> (and (<= 0 j) (< j {k})) (and (<= 0 (select {iterators} j)) (< (select {iterators} j) {nexth}))) :pattern ((select {iterators} j))))',
            '(forall ((j Int)) (! (=> (and (<= 0 j) (< j {k})) ((_ is SOk) (h_res (select {iterators} j)))) :pattern ((select {iterators} j))))',
            '(forall ((j Int)) (! (=> (and (<= 0 j) (< j {k})) (= (h_res (select {iterators} j)) (su (nth {array1} j) (nth {array2} j) (h_cs (select {iterators} j))))) :pattern ((select {iterators} j))))',
            '(forall ((j Int)) (! (=> (and (<= 0 j) (< j {k})) (= (h_cs (select {iterators} j)) (chain {iterators} j {S0}))) :pattern ((select {iterators} j))))',
            '(forall ((i Int) (j Int)) (! (=> (and (<= 0 i) (< i j) (< j {k}))'
            ' (not (= (select {iterators} i) (select {iterators} j))))'
            ' :pattern ((select {iterators} i) (select {iterators} j))))',
            # cells bound at entry are never touched
            '(forall ((j Int) (v Int)) (! (=> (and (<= 0 j) (<= j {k}) ((_ is Bound) (select {S0} v)))'
            ' (= (select (chain {iterators} j {S0}) v) (select {S0} v)))'
            ' :pattern ((select (chain {iterators} j {S0}) v))))',
        ]),
        1: LoopSpec([
            # forward-order close: after k closes exactly the cells bound by the first k
            # sub-unifications are reset; everything else is as it was when the loop started
            '(forall ((v Int)) (! (= (select {S} v)'
            ' (ite (not (= (select (chain {iterators} (ite (< {k} ' + _MS + ') {k} ' + _MS + ') {S0}) v) (select {S0} v)))'
            ' Unbound (select {loop1_pre_store} v))) :pattern ((select {S} v))))',
            '(forall ((j Int)) (! (=> (and (<= {k} j) (< j ' + _MS + '))'
            ' (= (select {ist} (select {iterators} j)) SUSP)) :pattern ((select {iterators} j))))',
            '(=> (not {got_match}) (not (= (select {ist} (select {iterators} (- {num_iterators} 1))) SUSP)))',
        ]),
    }))

# ---- conversion to Python values (C15, C16) ------------------------------------------------------
_WF = '(wfl (resolve {%s} {S}))'
add(Contract('engine.to_python', 'pure', [('v', 'Term')], ret='PV', value='(topyres {v} {S})', requires=[_WF % 'v'],
             maps='topyresl', ghost={'maps_sort': 'PVL', 'maps_requires': '(wfll (resolvel {l} {S}))'}))
add(Contract('engine.Atom.to_python', 'pure', [('self', 'Term:TAtom')], ret='PV', value='(topyres {self} {S})'))
add(Contract('engine.Variable.to_python', 'pure', [('self', 'Term:TVar')], ret='PV', value='(topyres {self} {S})', requires=[_WF % 'self']))
add(Contract('engine.Functor.to_python', 'pure', [('self', 'Term:TFun')], ret='PV', value='(topyres {self} {S})', requires=[_WF % 'self']))
