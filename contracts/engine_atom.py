"""Sidecar contract of YP.atom against the atom table itself (C16: equal names are the same atom; C04: the table is per engine).

Everywhere else (contracts/engine_heap.py) `atom` is the pure function  name -> (TAtom name).  This module justifies that
abstraction: under the representation invariant  INV: every key of `_atom_store` holds the Atom of that name  the real body
returns the atom of the requested name, keeps INV, adds at most the requested key and leaves every other entry alone. INV holds
for the empty table that `__init__` and `clear` install, and nothing else touches the table (AST obligation
`engine.YP._atom_store.encapsulated`, vf/props/enginep.py).
"""
from vf.pyvc.exec import Contract
from contracts.engine_terms import C as TERMS

C = dict(TERMS)
INV = '(forall ((k String)) (! (=> (select {%s} k) (= (select {%s} k) k)) :pattern ((select {%s} k))))'

C['engine.YP.atom'] = Contract(
    'engine.YP.atom', 'fn', [('self', 'YP'), ('name', 'Str'), ('module', 'Opt:Any:None')], ret='Term',
    modifies=['ahas', 'aname'],
    requires=[INV % ('ahas', 'aname', 'aname')],
    ensures=['(= {result} (TAtom {name}))',
             INV % ('ahas', 'aname', 'aname'),
             '(select {ahas} {name})',
             # an interned atom stays interned; no other key appears or changes
             '(forall ((k String)) (! (=> (distinct k {name}) (and (= (select {ahas} k) (select {ahas0} k)) (= (select {aname} k) (select {aname0} k)))) :pattern ((select {ahas} k)) :pattern ((select {aname} k))))',
             '(=> (select {ahas0} {name}) (= (select {aname} {name}) (select {aname0} {name})))'],
    notes='verified against the atom table (AtomStoreTheory); the other checks use the pure abstraction name -> TAtom name')
