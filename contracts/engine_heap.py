"""Sidecar contracts: engine.py, fact database and meta-call builtins (C07, C08, C09, C13, C14, C17, C20).

Heap vocabulary: spec/heap.smt2.  `K` below abbreviates the database key of the call.
Postconditions are stated over the WHOLE heap (the new list, the old lists, the other keys), not
only over the touched element.
"""
from vf.pyvc.core import SV
from vf.pyvc.exec import Contract, LoopSpec
from contracts.engine_terms import C as TERMS

C = dict(TERMS)


def add(c):
    C[c.name] = c


HEAP_MODS = ['pstore', 'lists', 'avalues', 'nextref', 'published', 'nextv', 'vmaps']
K = '(mkKey {name} {arity})'

add(Contract('engine.YP.atom', 'pure', [('self', 'YP'), ('name', 'Str'), ('module', 'Opt:Any:None')], ret='Term',
             value='(TAtom {name})', notes='abstraction of the atom table; justified by contracts/engine_atom.py (YP.atom verified against the table under C04 and C16)'))

# the constructor API the emitted code calls (spec/literals.smt2 `denote` relies on exactly these equations)
add(Contract('engine.YP.functor', 'fn', [('self', 'YP'), ('name', 'Str'), ('args', 'TList')], ret='Term',
             ensures=['(= {result} (TFun {name} {args}))']))
add(Contract('engine.YP.functor1', 'fn', [('self', 'YP'), ('name', 'Str'), ('arg', 'Term')], ret='Term',
             ensures=['(= {result} (TFun {name} (cons {arg} nil)))']))
add(Contract('engine.YP.functor2', 'fn', [('self', 'YP'), ('name', 'Str'), ('arg1', 'Term'), ('arg2', 'Term')], ret='Term',
             ensures=['(= {result} (TFun {name} (cons {arg1} (cons {arg2} nil))))']))
add(Contract('engine.YP.functor3', 'fn', [('self', 'YP'), ('name', 'Str'), ('arg1', 'Term'), ('arg2', 'Term'), ('arg3', 'Term')], ret='Term',
             ensures=['(= {result} (TFun {name} (cons {arg1} (cons {arg2} (cons {arg3} nil)))))']))
add(Contract('engine.YP.listpair', 'fn', [('self', 'YP'), ('head', 'Term'), ('tail', 'Term')], ret='Term',
             ensures=['(= {result} (TFun "." (cons {head} (cons {tail} nil))))']))
add(Contract('engine.YP.variable', 'fn', [('self', 'YP')], ret='Term', modifies=['nextv'],
             # a new variable: not an existing one (>= every id allocated so far), and the allocation counter moves past it
             ensures=['((_ is TVar) {result})', '(>= (vid {result}) {nextv0})', '(> {nextv} (vid {result}))']))

add(Contract('engine.YP._clauses', 'fn', [('self', 'YP'), ('name', 'Str'), ('arity', 'Int')], ret='FList',
             modifies=['lists', 'nextref'],
             ensures=['(= (select {lists} {result}) (dbseq {pstore} {lists0} ' + K + '))',
                      '(=> (>= (select {pstore} ' + K + ') 0) (and (= {result} (select {pstore} ' + K + ')) (= {lists} {lists0}) (= {nextref} {nextref0})))',
                      '(=> (< (select {pstore} ' + K + ') 0) (and (= {result} {nextref0}) (= {nextref} (+ {nextref0} 1))'
                      ' (= {lists} (store {lists0} {nextref0} (as seq.empty FSeq)))))',
                      '(and (<= 0 {result}) (< {result} {nextref}))']))

add(Contract('engine.YP._find_predicates', 'fn', [('self', 'YP'), ('name', 'Str'), ('arity', 'Int')], ret='FList',
             raises={'YPException': '(< (select {pstore} ' + K + ') 0)'},
             ensures=['(= {result} (select {pstore} ' + K + '))', '(>= {result} 0)', '(< {result} {nextref})',
                      '(select {published} {result})']))

add(Contract('engine.YP._update_predicate', 'fn', [('self', 'YP'), ('name', 'Term:TAtom'), ('arity', 'Int'), ('clauses', 'FList')],
             ret='None', modifies=['pstore', 'published'],
             requires=['(and (<= 0 {clauses}) (< {clauses} {nextref}))'],
             ensures=['(= {pstore} (store {pstore0} (mkKey (aname {name}) {arity}) {clauses}))',
                      '(= {published} (store {published0} {clauses} true))']))


def _fold_copy(ex, th, st, lst, rest):
    """[_copy_term(a, mapping) for a in L]: the mapping and the variable counter are threaded left to right"""
    m = rest[0]
    cur = '(select %s %s)' % (st.comp['vmaps'], m.e)
    r = '(rnl %s %s %s %s)' % (lst.e, cur, st.comp['nextv'], st.comp['store'])
    rn = ex.fresh('RnL', 'rnl')
    st.assume('(= %s %s)' % (rn, r))
    st.comp['vmaps'] = '(store %s %s (rlm %s))' % (st.comp['vmaps'], m.e, rn)
    st.comp['nextv'] = '(rln %s)' % rn
    return [(st, SV('TList', '(rl %s)' % rn))]


_M0 = '(select {vmaps0} {mapping})'
add(Contract('engine._copy_term', 'fn', [('term', 'Term'), ('mapping', 'VarMap')], ret='Term',
             modifies=['vmaps', 'nextv'],
             ensures=['(= {result} (rt (rnt {term} ' + _M0 + ' {nextv0} {S})))',
                      '(= {vmaps} (store {vmaps0} {mapping} (rtm (rnt {term} ' + _M0 + ' {nextv0} {S}))))',
                      '(= {nextv} (rtn (rnt {term} ' + _M0 + ' {nextv0} {S})))'],
             ghost={'fold': _fold_copy}))

add(Contract('engine.copy_terms', 'fn', [('terms', 'TList')], ret='TList',
             modifies=['vmaps', 'nextv', 'nextref'],
             ensures=['(= {result} (fresh_copy {terms} {nextv0} {S}))',
                      '(= {nextv} (fresh_next {terms} {nextv0} {S}))',
                      '(>= {nextref} {nextref0})']))

add(Contract('engine.Answer.match', 'iterfn-fx', [('self', 'Answer'), ('args', 'TList')], ret='Iter',
             modifies=['nextv', 'vmaps', 'nextref'],
             spec='(amatch {args} (select {avalues} {self}) {nextv0} {S0})',
             ensures=['(>= {nextv} {nextv0})', '(>= {nextref} {nextref0})'],
             ghost={'handle_facts': ['(= (h_mfact {result}) {self})', '(= (h_margs {result}) {args})']}))

def asserted(k, vals, app):
    """effect of assert_fact on the heap, conjunct by conjunct (see spec/heap.smt2 `asserted` for the prose)"""
    r = '(select {pstore} %s)' % k
    old = '(dbseq {pstore0} {lists0} %s)' % k
    L = '(select {lists} %s)' % r
    n0 = '(seq.len %s)' % old
    nf = '(ite %s (seq.nth %s %s) (seq.nth %s 0))' % (app, L, n0, L)
    return [
        '(and (>= %s {nextref0}) (< %s {nextref}))' % (r, r),
        '(select {published} %s)' % r,
        '(and (>= {nextref} {nextref0}) (>= {nextv} {nextv0}))',
        '(= {pstore} (store {pstore0} %s %s))' % (k, r),
        '(= (seq.len %s) (+ %s 1))' % (L, n0),
        '(ite %s (= (seq.extract %s 0 %s) %s) (= (seq.extract %s 1 %s) %s))' % (app, L, n0, old, L, n0, old),
        '(and (>= %s {nextref0}) (< %s {nextref}))' % (nf, nf),
        '(= (select {avalues} %s) (fresh_copy %s {nextv0} {S}))' % (nf, vals),
        '(forall ((q Int)) (! (=> (< q {nextref0}) (= (select {lists} q) (select {lists0} q))) :pattern ((select {lists} q))))',
        '(forall ((q Int)) (! (=> (< q {nextref0}) (= (select {avalues} q) (select {avalues0} q))) :pattern ((select {avalues} q))))',
        '(forall ((q Int)) (! (=> (< q {nextref0}) (= (select {published} q) (select {published0} q))) :pattern ((select {published} q))))',
    ]


add(Contract('engine.YP.assert_fact', 'fn',
             [('self', 'YP'), ('name', 'Term:TAtom'), ('values', 'TList'), ('append', 'Opt:Bool:True')], ret='None',
             modifies=HEAP_MODS,
             ensures=asserted('(mkKey (aname {name}) (len {values}))', '{values}', '{append}')))

_T = '(resolve {term} {S0})'
for nm, app in (('asserta', 'false'), ('assertz', 'true')):
    add(Contract('engine.YP.' + nm, 'iterfn-fx', [('self', 'YP'), ('term', 'Term')], ret='Iter',
                 modifies=HEAP_MODS, spec='(SOk {S0})',
                 ensures=['(=> (callable ' + _T + ') ' + c + ')' for c in asserted('(tkey ' + _T + ')', '(targs ' + _T + ')', app)] +
                         ['(=> (not (callable ' + _T + ')) (and (= {pstore} {pstore0}) (= {lists} {lists0}) (= {avalues} {avalues0})))']))

add(Contract('engine.YP.match_dynamic', 'handlefn', [('self', 'YP'), ('name', 'Term:TAtom'), ('args', 'TList')], ret='Iter',
             ensures=['(= (h_ans {result}) (ite (>= (select {pstore} (mkKey (aname {name}) (len {args}))) 0)'
                      ' (ADyn {args} (select {pstore} (mkKey (aname {name}) (len {args})))) (ASemidet SFail)))']))

add(Contract('engine.YP._match_all_clauses', 'gen', [('self', 'YP'), ('clauses', 'FList'), ('args', 'TList')], ret='Iter',
             requires=['(select {published} {clauses})', '(and (<= 0 {clauses}) (< {clauses} {nextref}))'],
             answers='(ADyn {args} {clauses})',
             yields=['(= {__nactive} 1)',
                     '(= (h_mfact {__active0}) {clause})',
                     '(= (h_margs {__active0}) {args})',
                     # the snapshot: the list object read at the start still has the contents it had then
                     '(= (select {lists} {clauses}) (select {lists0} {clauses}))',
                     '(= {clause} (seq.nth (select {lists0} {clauses}) {k0}))'],
             exit=['{loop0_exhausted}'],
             loops={0: LoopSpec(['(select {published} {clauses})',
                                 '(= (select {lists} {clauses}) (select {lists0} {clauses}))'])},
             raises=['UserException', 'RecursionError']))

_RK = '(mkKey {name} (len {args}))'
add(Contract('engine.YP.retract', 'gen', [('self', 'YP'), ('term', 'Term')], ret='Iter',
             answers='(AOther 1)',
             raises={'YPException': '(not (callable ' + _T + '))', 'UserException': None, 'RecursionError': None},
             yields=['(= {__nactive} 1)',
                     '(= (h_mfact {__active0}) {clause})',
                     '(= (h_margs {__active0}) {args})',
                     '(= ' + _RK + ' (tkey ' + _T + '))', '(= {args} (targs ' + _T + '))',
                     # the fact was still present; the NEW list published under the key is the current one minus it
                     '(seq.contains (select {lists} {current}) (seq.unit {clause}))',
                     '(>= (select {pstore} ' + _RK + ') 0)',
                     '(= (select {lists} (select {pstore} ' + _RK + ')) (sremove (select {lists} {current}) {clause}))',
                     '(select {published} (select {pstore} ' + _RK + '))',
                     '(not (= (select {pstore} ' + _RK + ') {current}))'],
             exit=['{loop0_exhausted}']))

add(Contract('engine.YP.retractall', 'iterfn-fx', [('self', 'YP'), ('term', 'Term')], ret='Iter',
             modifies=HEAP_MODS, spec='(SOk {S0})',
             raises={'YPException': '(not (callable ' + _T + '))'},
             ensures=[
                 '(>= (select {pstore} (tkey ' + _T + ')) {nextref0})',
                 '(= {pstore} (store {pstore0} (tkey ' + _T + ') (select {pstore} (tkey ' + _T + '))))',
                 '(= (select {lists} (select {pstore} (tkey ' + _T + ')))'
                 ' (sfilter (dbseq {pstore0} {lists0} (tkey ' + _T + ')) (seq.len (dbseq {pstore0} {lists0} (tkey ' + _T + ')))'
                 ' (targs ' + _T + ') {avalues0} {S0}))',
                 '(forall ((q Int)) (! (=> (< q {nextref0}) (= (select {lists} q) (select {lists0} q))) :pattern ((select {lists} q))))',
                 '(= {avalues} {avalues0})'],
             loops={0: LoopSpec([
                 '(= {store} {store0})',
                 '(= {pstore} {pstore0})',
                 '(= {published} {published0})',
                 '(>= {nextref} {loop0_pre_nextref})',
                 '(and (<= 0 {remaining_clauses}) (< {remaining_clauses} {loop0_pre_nextref}) (>= {remaining_clauses} {nextref0}))',
                 '(not (= {remaining_clauses} {it}))',
                 '(<= {k} (seq.len (select {lists} {it})))',
                 '(= (select {lists} {it}) (dbseq {pstore0} {lists0} (tkey ' + _T + ')))',
                 '(= (select {lists} {remaining_clauses}) (sfilter (select {lists} {it}) {k} {args} {avalues0} {S0}))',
                 '(forall ((q Int)) (! (=> (< q {nextref0}) (= (select {lists} q) (select {lists0} q))) :pattern ((select {lists} q))))',
                 '(= {avalues} {avalues0})',
                 '(= {args} (targs ' + _T + '))', '(= ' + _RK + ' (tkey ' + _T + '))',
             ])}))

_QK = '(mkKey {name} (len {args}))'
_LOOKUP = ('(ite (>= (select {ectx} (str.++ {name} "_" (str.from_int (len {args})))) 0)'
           ' (select {ectx} (str.++ {name} "_" (str.from_int (len {args})))) (select {ectx} (str.++ {name} "_n")))')
add(Contract('engine.YP.query', 'gen', [('self', 'YP'), ('name', 'Str'), ('args', 'TList')], ret='Iter',
             answers='(AQuery {name} {args})',
             raises=['UserException', 'RecursionError'],
             ghost={'segments': [
                 # dynamic facts first (read when the query starts) ...
                 ('(ite (>= (select {pstore0} ' + _QK + ') 0) (ADyn {args} (select {pstore0} ' + _QK + ')) (ASemidet SFail))', 'true'),
                 # ... then the definition for exactly len(args) arguments, else the variadic one, looked up
                 # when the facts are exhausted (late binding); API names are never callable
                 ('(AFun ' + _LOOKUP + ' {args})', '(and (not (select {blacklist} {name})) (not (= ' + _LOOKUP + ' (- 1))))'),
             ]}))

_G = '(resolve {goal} {S0})'
add(Contract('engine.YP.call', 'gen', [('self', 'YP'), ('goal', 'Term'), ('args', 'Star:TList')], ret='Iter',
             answers='(ACall {goal} {args})',
             raises={'YPException': '(not (callable ' + _G + '))', 'UserException': None, 'RecursionError': None},
             ghost={'segments': [
                 ('(AQuery (ite ((_ is TFun) ' + _G + ') (fname ' + _G + ') (aname ' + _G + ')) (tappend (targs ' + _G + ') {args}))', 'true')]}))

add(Contract('engine.YP.once', 'gen', [('self', 'YP'), ('goal', 'Term')], ret='Iter',
             answers='(AOther 2)',
             raises=['YPException', 'UserException', 'RecursionError'],
             yields=['(= {__nactive} 1)', '(= (h_ans {__active0}) (ACall {goal} nil))', '(= (select {hcnt} {__active0}) 1)'],
             exit=['(or (= {__yields} 1) {loop0_exhausted})'],
             loops={0: LoopSpec(['(= (select {hcnt} {it}) 0)'])},
             ghost={'max_yields': 1}))

add(Contract('engine.YP.makelist', 'fn', [('self', 'YP'), ('l', 'TList')], ret='Term',
             ensures=['(= {result} (mklist {l}))'], ghost={'fold_spec': 'mklist'},
             notes='functools.reduce over reversed(l) is the right fold (A-EXT-REDUCE): base and step of the fold are obligations'))

add(Contract('engine.YP.findall', 'gen', [('self', 'YP'), ('template', 'Term'), ('goal', 'Term'), ('bag', 'Term')], ret='Iter',
             answers='(AOther 3)',
             raises=['YPException', 'UserException', 'RecursionError'],
             # one answer, produced by unifying the bag with the list of collected template copies; the goal
             # iterator call(goal) has been run to exhaustion before (so no binding made by the goal is left)
             yields=['(= {__nactive} 1)',
                     '(= (h_ans {q}) (ACall {goal} nil))',
                     '(= (select {ist} {q}) DONE)',
                     '(= (h_res {__active0}) (su {bag} (mklist {__collected}) (h_cs {__active0})))'],
             ghost={'max_yields': 1}))

_EQARGS = '(cons {arg1} (cons {arg2} nil))'
add(Contract('engine.YP.builtin_neq', 'gen', [('self', 'YP'), ('arg1', 'Term'), ('arg2', 'Term')], ret='Iter',
             answers='(AOther 4)',
             raises=['UserException', 'RecursionError'],
             # succeeds once, with no iterator suspended (so binding nothing), iff query('=',[X,Y]) has no answer
             yields=['(= {__nactive} 0)',
                     '(= (h_ans {loop2_it}) (AQuery "=" ' + _EQARGS + '))',
                     '(= (select {hcnt} {loop2_it}) 0)',
                     '(= (select {ist} {loop2_it}) DONE)'],
             exit=['(or (= {__yields} 1) (>= (select {hcnt} {loop2_it}) 1))'],
             loops={2: LoopSpec(['(= (select {hcnt} {it}) 0)', '(not {doBreak})', '(not {cutIf1})'])},
             ghost={'max_yields': 1}))

add(Contract('engine.YP.register_function', 'fn',
             [('self', 'YP'), ('name', 'Str'), ('func', 'Fn'), ('arity', 'Opt:OptInt:None')], ret='None',
             modifies=['ectx'],
             ensures=['(= {ectx} (store {ectx0} (ite {arity.none} (str.++ {name} "_" (str.from_int (nparams {func})))'
                      ' (ite (< {arity} 0) (str.++ {name} "_n") (str.++ {name} "_" (str.from_int {arity})))) {func}))']))

def _bi(key, fn):
    return '(= (select {ectx} "%s") %s)' % (key, fn)


# the documented builtins under the names and arities a compiled program looks them up with (README "Builtin predicates");
# call has variable arity (call/N for every N >= 1)
add(Contract('engine.YP._set_builtin_predicates', 'fn', [('self', 'YP')], ret='None', modifies=['ectx'],
             ensures=[_bi('=_2', 'fn_builtin_eq'), _bi('\\u{5c}=_2', '(fn_method "builtin_neq")'),
                      _bi('findall_3', '(fn_method "findall")'), _bi('call_n', '(fn_method "call")'),
                      _bi('once_1', '(fn_method "once")'), _bi('assertz_1', '(fn_method "assertz")'),
                      _bi('asserta_1', '(fn_method "asserta")'), _bi('retract_1', '(fn_method "retract")'),
                      _bi('retractall_1', '(fn_method "retractall")')]))

add(Contract('engine.YP.evaluate_bounded', 'fn',
             [('self', 'YP'), ('query', 'GenHandle'), ('projection_function', 'UserFn'), ('recursion_limit', 'Opt:Int:200')],
             ret='Any',
             requires=['(< rdepth {rlimit})'],
             modifies=['rlimit'],
             # (i) the interpreter limit is restored, (iv) the query is finalised - on normal return ...
             ensures=['(= {rlimit} {rlimit0})', '(not (= (select {ist} {query}) SUSP))',
                      # (iii) one projected value per answer consumed, in order
                      '(<= (seq.len (select {lists} {result})) (- (select {hcnt} {query}) (select {hcnt0} {query})))',
                      '(>= (seq.len (select {lists} {result})) (- (- (select {hcnt} {query}) (select {hcnt0} {query})) 1))'],
             # ... and when the projection function raises; (ii) RecursionError never escapes (not listed here)
             raises={'UserException': None},
             ghost={'exc_ensures': ['(= {rlimit} {rlimit0})', '(not (= (select {ist} {query}) SUSP))']},
             loops={0: LoopSpec(['(= {rlimit} {recursion_limit})',
                                 '(and (<= 0 {result}) (< {result} {nextref}) (not (select {published} {result})))',
                                 '(= (seq.len (select {lists} {result})) (- (select {hcnt} {it}) (select {hcnt0} {it})))'])}))

add(Contract('engine.chain_functions', 'pure', [('func1', 'OptFn'), ('func2', 'Fn')], ret='Fn',
             value='(ite (= {func1} (- 1)) {func2} (chainfn {func1} {func2}))',
             notes='assumed: itertools.chain over [f(*args) for f in funcs] (A-EXT-ITERTOOLS); bounded-checked under C08'))

_MERGED = ('(ite (= (select {ectx0} x) (select {new_context} x)) (select {ectx0} x)'
           ' (ite {overwrite} (select {new_context} x)'
           ' (ite (= (select {ectx0} x) (- 1)) (select {new_context} x) (chainfn (select {ectx0} x) (select {new_context} x)))))')
add(Contract('engine.YP.load_script_from_string', 'fn',
             [('self', 'YP'), ('s', 'Str'), ('fn', "Opt:Str:''"), ('overwrite', 'Opt:Bool:True')], ret='None',
             modifies=['ectx'],
             raises={'UserException': None},
             # a load that raises leaves the engine unchanged
             ghost={'exc_ensures': ['(= {ectx} {ectx0})']},
             # every key of the executed context whose value differs is replaced (overwrite) or chained after the
             # existing definition (combine); every other key is untouched
             ensures=['(forall ((x String)) (! (= (select {ectx} x) (ite (>= (select {new_context} x) 0) ' + _MERGED.replace('{', '{') +
                      ' (select {ectx0} x))) :pattern ((select {ectx} x))))'],
             loops={0: LoopSpec([
                 '(forall ((x String)) (! (= (select {ectx} x) (ite (select {P} x) ' + _MERGED + ' (select {ectx0} x))) :pattern ((select {ectx} x))))',
                 '(forall ((x String)) (! (=> (select {P} x) (>= (select {new_context} x) 0)) :pattern ((select {P} x))))',
             ])}))

# ---- the two iterator classes of the unification family: they implement the semidet handle protocol ----------------
# YPSuccess: exactly one answer (the constant False), binding nothing (store untouched: footprint empty), then StopIteration
add(Contract('engine.YPSuccess.__init__', 'fn', [('self', 'SObj')], ret='None', modifies=['sdone'],
             ensures=['(= {sdone} (store {sdone0} {self} false))', '(= {store} {store0})']))
add(Contract('engine.YPSuccess.__next__', 'fn', [('self', 'SObj')], ret='Bool', modifies=['sdone'],
             raises={'StopIteration': '(select {sdone0} {self})'},
             ensures=['(not (select {sdone0} {self}))', '(= {result} false)', '(= {sdone} (store {sdone0} {self} true))', '(= {store} {store0})'],
             ghost={'exc_ensures': ['(= {store} {store0})', '(= {sdone} {sdone0})']}))
add(Contract('engine.YPSuccess.close', 'fn', [('self', 'SObj')], ret='None', ensures=['(= {store} {store0})']))
# YPFail: no answer, binding nothing
add(Contract('engine.YPFail.__next__', 'fn', [('self', 'SObj')], ret='Bool',
             raises={'StopIteration': 'true'}, ensures=['false'], ghost={'exc_ensures': ['(= {store} {store0})']}))
add(Contract('engine.YPFail.close', 'fn', [('self', 'SObj')], ret='None', ensures=['(= {store} {store0})']))
