"""Sidecar contracts: yp_prolog_visitor.YPPrologVisitor string functions (C11, C12, C16)."""
from vf.pyvc.exec import Contract, LoopSpec

C = {}


def add(c):
    C[c.name] = c


BS = '"\\u{5c}"'
add(Contract('yp_prolog_visitor.YPPrologVisitor.unquoteString', 'fn', [('self', 'VSelf'), ('s', 'Str')], ret='Str',
             requires=['(>= (str.len {s}) 2)'],
             # the text between the outer quotes with every backslash removed (so \\' stands for a quote and
             # backslash-free text is unchanged)
             ensures=['(= {result} (filt {s} (- (str.len {s}) 1)))'],
             loops={0: LoopSpec(['(and (<= 1 {i}) (<= {i} (- (str.len {s}) 1)))', '(= {r} (filt {s} {i}))'])}))

RESERVED = ['True', 'False', 'None', 'ATOM_NIL', '__debug__']
_NOTRES = ' '.join('(not (= {result} "%s"))' % r for r in RESERVED)
add(Contract('yp_prolog_visitor.YPPrologVisitor.visitVARIABLE', 'fn', [('self', 'VSelf'), ('var', 'Token')], ret='VarAst',
             modifies=['avc'],
             # A-EXT-ANTLR: the token text matches the VARIABLE rule of prolog.g4
             requires=['(str.in_re {var} VARIABLE)', '(>= {avc} 0)'],
             ensures=[
                 # the emitted name is a Python identifier (for `_`: x<digits>, an identifier by spec.anon_name_is_identifier) ...
                 '(=> (not (= {var} "_")) (str.in_re {result} IDENT))',
                 '(=> (= {var} "_") (str.in_re {result} (re.++ (str.to_re "x") DECINT)))',
                 # ... that is none of the names generated code relies on ...
                 '(and ' + _NOTRES + ')',
                 # ... a source variable keeps an upper-case or underscore start (so it cannot collide with argN, lN, xN,
                 #     cutIfN, doBreak or an engine function, which all start with a lower-case letter) and is never `_` itself
                 '(=> (not (= {var} "_")) (and (str.in_re {result} VARIABLE) (not (= {result} "_"))))',
                 # ... `_` becomes x<counter+1> and advances the counter: every `_` is a distinct variable
                 '(=> (= {var} "_") (and (= {result} (str.++ "x" (str.from_int (+ {avc0} 1)))) (= {avc} (+ {avc0} 1))))',
                 '(=> (not (= {var} "_")) (= {avc} {avc0}))',
                 # ... and the renaming is the function `mangle` (injective: spec.mangle_injective)
                 '(=> (not (= {var} "_")) (= {result} (mangle {var})))']))
